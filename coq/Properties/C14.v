(* C14 - Deserializing or using untrusted bytes never crashes, hangs or over-allocates.
   The instrumented readers of WireAlloc.v return an outcome in {AOk, AErr, APanic, AAbort} and the log of allocation
   requests they make; mode true = repaired tree, mode false = pinned tree 8f3c295. *)
From Coq Require Import List NArith Bool Arith Lia Permutation.
From CC Require Import Policy Structure Leb Wire WireAlloc RevIter WireAllocFuel.
Import ListNotations.

Definition bounded (log : list N) (len : nat) : Prop := Forall (fun r => (r <= 2 * 4096 * (N.of_nat len + 1))%N) log.

(* For EVERY byte string, each repaired reader returns a value or an error - never a panic, never an aborting
   allocation - and every allocation request it makes is linear in the length of the input. *)
Theorem C14_xenc : forall bs, bounded (l_xenc true bs) (length bs) /\ a_xenc true bs <> APanic /\ forall n, a_xenc true bs <> AAbort n.
Proof. exact alloc_fixed_bounded_xenc. Qed.
Print Assumptions C14_xenc.
Theorem C14_header : forall bs, bounded (l_header true bs) (length bs) /\ a_header true bs <> APanic /\ forall n, a_header true bs <> AAbort n.
Proof. exact alloc_fixed_bounded_header. Qed.
Print Assumptions C14_header.
Theorem C14_usk : forall bs, bounded (l_usk true bs) (length bs) /\ a_usk true bs <> APanic /\ forall n, a_usk true bs <> AAbort n.
Proof. exact alloc_fixed_bounded_usk. Qed.
Print Assumptions C14_usk.
Theorem C14_mpk : forall bs, bounded (l_mpk true bs) (length bs) /\ a_mpk true bs <> APanic /\ forall n, a_mpk true bs <> AAbort n.
Proof. exact alloc_fixed_bounded_mpk. Qed.
Print Assumptions C14_mpk.
Theorem C14_msk : forall bs, bounded (l_msk true bs) (length bs) /\ a_msk true bs <> APanic /\ forall n, a_msk true bs <> AAbort n.
Proof. exact alloc_fixed_bounded_msk. Qed.
Print Assumptions C14_msk.
Theorem C14_structure : forall bs, bounded (l_structure true bs) (length bs) /\ a_structure true bs <> APanic /\ forall n, a_structure true bs <> AAbort n.
Proof. exact alloc_fixed_bounded_structure. Qed.
Print Assumptions C14_structure.

(* the instrumented readers compute the same values as the plain readers used for C13 *)
Theorem C14_erase_usk : forall bs, erase (a_usk true bs) = r_usk default_sizes bs.
Proof. exact alloc_erase_usk. Qed.
Print Assumptions C14_erase_usk.
Theorem C14_erase_xenc : forall bs, erase (a_xenc true bs) = r_xenc default_sizes bs.
Proof. exact alloc_erase_xenc. Qed.
Print Assumptions C14_erase_xenc.

(* loops: the counted-list readers never depend on their fuel (they are bounded by the remaining input) *)
Theorem C14_list_reader_fuel_irrelevant : forall (A : Type) (f : bytes -> res A), eats 1 f ->
  forall n rest k, r_n f (length rest) n rest [] = r_n f (length rest + k) n rest [].
Proof. exact @r_n_fuel_irrelevant. Qed.
Print Assumptions C14_list_reader_fuel_irrelevant.

(* USING a parsed user key: the repaired revision traversal of ANY parsed key terminates within (longest chain + 1)
   steps and visits every secret exactly once - in particular for a key with no chain at all. *)
Theorem C14_decaps_traversal_terminates : forall sz bs u rest, r_usk sz bs = ROk u rest ->
  let chs := map snd (wu_chains u) in
  exists r, revisions_fuel true (S (maxlen chs)) chs = Some r /\ Permutation (concat r) (concat chs).
Proof. exact parsed_usk_revisions_terminate. Qed.
Print Assumptions C14_decaps_traversal_terminates.

(* accessors: tracing_level is total (saturating) *)
Theorem C14_tracing_level_total : forall len, exists n, tracing_level true len = TLOk n /\ (n <= len)%N.
Proof. exact tracing_level_fixed_total. Qed.
Print Assumptions C14_tracing_level_total.

(* Pinned tree (8f3c295) refuted (findings F3, F9, F10, all repaired): capacity overflow on a 26-byte input, a 2^55-byte
   request from an 27-byte header, a 3-byte user key on which decapsulation never returns, len()-1 underflow. *)
Theorem C14_pinned_capacity_refuted : exists bs, (length bs <= 32)%nat /\ (a_xenc false bs = APanic \/ exists n, a_xenc false bs = AAbort n).
Proof. exact alloc_pinned_refuted. Qed.
Print Assumptions C14_pinned_capacity_refuted.
Theorem C14_pinned_read_vec_refuted : exists bs, (length bs <= 32)%nat /\ (a_header false bs = APanic \/ exists n, a_header false bs = AAbort n).
Proof. exact alloc_pinned_refuted_header. Qed.
Print Assumptions C14_pinned_read_vec_refuted.
Theorem C14_pinned_hang_refuted : exists bs u, (length bs <= 3)%nat /\ a_usk false bs = AOk u [] /\
  forall fuel, revisions_fuel false fuel (map snd (wu_chains u)) = None.
Proof. exact parsed_usk_pinned_hangs. Qed.
Print Assumptions C14_pinned_hang_refuted.
Theorem C14_pinned_tracing_level_refuted : exists len, tracing_level false len = TLPanic.
Proof. exact tracing_level_pinned_refuted. Qed.
Print Assumptions C14_pinned_tracing_level_refuted.

(* Machine arithmetic of the attribute-identifier counter (coq/IdCounter.v; F14): reading the legacy structure format
   and add_attribute never panic on an identifier / counter taken from untrusted bytes; an accepted legacy structure
   resumes above every identifier in use; the counter invariant is kept; the arithmetic first committed with the repair
   of F2 panics on the largest usize (both sites). *)
From CC Require IdCounter.
Theorem C14_legacy_counter_never_panics : forall ids : list N, IdCounter.legacy_next true ids <> IdCounter.Panic.
Proof. exact IdCounter.legacy_next_fixed_no_panic. Qed.
Print Assumptions C14_legacy_counter_never_panics.
Theorem C14_legacy_counter_sound :
  forall (fx : bool) (ids : list N) (n : N), IdCounter.legacy_next fx ids = IdCounter.Val n ->
  (n < IdCounter.W)%N /\ forall i : N, In i ids -> (i < n)%N.
Proof. exact IdCounter.legacy_next_sound. Qed.
Print Assumptions C14_legacy_counter_sound.
Theorem C14_legacy_counter_refuses_iff :
  forall ids : list N, IdCounter.legacy_next true ids = IdCounter.Refused <-> exists i : N, In i ids /\ (IdCounter.W <= i + 1)%N.
Proof. exact IdCounter.legacy_next_fixed_refuses_iff. Qed.
Print Assumptions C14_legacy_counter_refuses_iff.
Theorem C14_add_attribute_counter_never_panics : forall st : list N * N, IdCounter.add_id true st <> IdCounter.Panic.
Proof. exact IdCounter.add_id_fixed_no_panic. Qed.
Print Assumptions C14_add_attribute_counter_never_panics.
Theorem C14_add_attribute_counter_invariant :
  forall (fx : bool) (st st' : list N * N), IdCounter.id_inv st -> IdCounter.add_id fx st = IdCounter.Val st' -> IdCounter.id_inv st'.
Proof. exact IdCounter.add_id_keeps_inv. Qed.
Print Assumptions C14_add_attribute_counter_invariant.
Theorem C14_pinned_counter_refuted :
  IdCounter.legacy_next false [(IdCounter.W - 1)%N] = IdCounter.Panic /\ IdCounter.add_id false ([], (IdCounter.W - 1)%N) = IdCounter.Panic.
Proof. split; [exact IdCounter.pinned_legacy_next_refuted | exact IdCounter.pinned_add_id_refuted]. Qed.
Print Assumptions C14_pinned_counter_refuted.
