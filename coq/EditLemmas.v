(* Association-list and dimension-level lemmas used by EditHistory.v (C03): the exact shape of the result of
   every attribute-level edit, and the facts wfb_replace needs about it. *)
From Coq Require Import List NArith Bool Arith Lia Permutation.
Require Import Policy Structure SelProofs GoodProofs AssocLemmas CoverProofs1 HierProofs WfProofs.
Import ListNotations.

Section Assoc2.
  Context {A : Type}.
  Implicit Types (l pre post : list (str * A)).

  Lemma alookup_split k (v : A) l : alookup k l = Some v ->
    exists pre post, l = pre ++ (k, v) :: post /\ ~ In k (keys pre).
  Proof.
    induction l as [|[k0 v0] l IH]; cbn [alookup]; intros H; [discriminate|].
    destruct (str_eqb k k0) eqn:E.
    - apply str_eqb_eq in E. subst k0. injection H as ->. exists [], l. split; [reflexivity|intros []].
    - destruct (IH H) as (pre & post & -> & Hn). exists ((k0, v0) :: pre), post. split; [reflexivity|].
      cbn. intros [E'|Hin]; [subst k0; rewrite str_eqb_refl in E; discriminate|contradiction].
  Qed.

  Lemma alookup_none k l : alookup k l = None <-> ~ In k (keys l).
  Proof. unfold keys. rewrite <- amem_false. unfold amem. destruct (alookup k l); split; intros H; try reflexivity; discriminate. Qed.

  Lemma alookup_app k l1 l2 :
    alookup k (l1 ++ l2) = match alookup k l1 with Some v => Some v | None => alookup k l2 end.
  Proof. induction l1 as [|[k0 v0] l1 IH]; cbn [app alookup]; [reflexivity|]. destruct (str_eqb k k0); [reflexivity|exact IH]. Qed.

  Lemma alookup_mid_hit k (v : A) pre post : ~ In k (keys pre) -> alookup k (pre ++ (k, v) :: post) = Some v.
  Proof. intros Hn. rewrite alookup_app. apply alookup_none in Hn. rewrite Hn. cbn [alookup]. rewrite str_eqb_refl. reflexivity. Qed.

  Lemma alookup_mid_other m k (v : A) pre post : m <> k -> alookup m (pre ++ (k, v) :: post) = alookup m (pre ++ post).
  Proof. intros Hne. rewrite !alookup_app. cbn [alookup]. apply str_eqb_neq in Hne. rewrite Hne. reflexivity. Qed.

  Lemma aremove_mid k (v : A) pre post : ~ In k (keys pre) -> aremove k (pre ++ (k, v) :: post) = pre ++ post.
  Proof.
    induction pre as [|[k0 v0] pre IH]; cbn [app aremove keys map fst]; intros Hn.
    - rewrite str_eqb_refl. reflexivity.
    - destruct (str_eqb k k0) eqn:E; [apply str_eqb_eq in E; exfalso; apply Hn; left; symmetry; exact E|].
      rewrite IH; [reflexivity|]. intros Hin. apply Hn. right. exact Hin.
  Qed.
  Lemma areplace_mid k (v v' : A) pre post : ~ In k (keys pre) -> areplace k v' (pre ++ (k, v) :: post) = pre ++ (k, v') :: post.
  Proof.
    induction pre as [|[k0 v0] pre IH]; cbn [app areplace keys map fst]; intros Hn.
    - rewrite str_eqb_refl. reflexivity.
    - destruct (str_eqb k k0) eqn:E; [apply str_eqb_eq in E; exfalso; apply Hn; left; symmetry; exact E|].
      rewrite IH; [reflexivity|]. intros Hin. apply Hn. right. exact Hin.
  Qed.
  Lemma arename_mid k k' (v : A) pre post : ~ In k (keys pre) -> arename k k' (pre ++ (k, v) :: post) = pre ++ (k', v) :: post.
  Proof.
    induction pre as [|[k0 v0] pre IH]; cbn [app arename keys map fst]; intros Hn.
    - rewrite str_eqb_refl. reflexivity.
    - destruct (str_eqb k k0) eqn:E; [apply str_eqb_eq in E; exfalso; apply Hn; left; symmetry; exact E|].
      rewrite IH; [reflexivity|]. intros Hin. apply Hn. right. exact Hin.
  Qed.

  Lemma alookup_areplace k d (v : A) l :
    alookup k (areplace d v l) =
    if str_eqb k d then match alookup d l with Some _ => Some v | None => None end else alookup k l.
  Proof.
    induction l as [|[k0 v0] l IH]; cbn [areplace alookup]; [destruct (str_eqb k d); reflexivity|].
    destruct (str_eqb d k0) eqn:E1.
    - apply str_eqb_eq in E1. subst k0. cbn [alookup]. destruct (str_eqb k d); reflexivity.
    - cbn [alookup]. destruct (str_eqb k k0) eqn:E2.
      + apply str_eqb_eq in E2. subst k0.
        assert (E3 : str_eqb k d = false). { apply str_eqb_neq. apply str_eqb_neq in E1. congruence. }
        rewrite E3. reflexivity.
      + exact IH.
  Qed.
  Lemma alookup_aremove_other k d l : k <> d -> alookup k (aremove d l) = alookup k l.
  Proof.
    intros Hne. induction l as [|[k0 v0] l IH]; cbn [aremove alookup]; [reflexivity|].
    destruct (str_eqb d k0) eqn:E1.
    - apply str_eqb_eq in E1. subst k0. apply str_eqb_neq in Hne. rewrite Hne. reflexivity.
    - cbn [alookup]. destruct (str_eqb k k0); [reflexivity|exact IH].
  Qed.
  Lemma keys_mid k (v : A) pre post : keys (pre ++ (k, v) :: post) = keys pre ++ k :: keys post.
  Proof. unfold keys. rewrite map_app. reflexivity. Qed.
End Assoc2.

(* ---- attribute lists around one distinguished entry ---- *)
Lemma names_mid k (a : attribute) pre post : names_of (pre ++ (k, a) :: post) = names_of pre ++ k :: names_of post.
Proof. unfold names_of. rewrite map_app. reflexivity. Qed.
Lemma ids_mid k (a : attribute) pre post : ids_of (pre ++ (k, a) :: post) = ids_of pre ++ a_id a :: ids_of post.
Proof. unfold ids_of. rewrite map_app. reflexivity. Qed.
Lemma names_app (l1 l2 : list (str * attribute)) : names_of (l1 ++ l2) = names_of l1 ++ names_of l2.
Proof. unfold names_of. apply map_app. Qed.
Lemma ids_app (l1 l2 : list (str * attribute)) : ids_of (l1 ++ l2) = ids_of l1 ++ ids_of l2.
Proof. unfold ids_of. apply map_app. Qed.

Lemma NoDup_mid_swap {B} (x y : B) l1 l2 : NoDup (l1 ++ x :: l2) -> ~ In y (l1 ++ x :: l2) -> NoDup (l1 ++ y :: l2).
Proof.
  intros Hnd Hy. eapply Permutation_NoDup; [apply Permutation_middle|]. constructor.
  - intros Hin. apply Hy. apply in_app_iff in Hin. apply in_app_iff. destruct Hin as [Hin|Hin]; [left; exact Hin|right; right; exact Hin].
  - apply NoDup_remove_1 in Hnd. exact Hnd.
Qed.

Definition is_hier (dm : dimension) : bool := match dm with Hierarchy _ => true | Anarchy _ => false end.
Definition rebuild (dm : dimension) (l : list (str * attribute)) : dimension :=
  match dm with Anarchy _ => Anarchy l | Hierarchy _ => Hierarchy l end.
Lemma attrs_rebuild dm l : attrs_of (rebuild dm l) = l. Proof. destruct dm; reflexivity. Qed.
Lemma ids_rebuild dm l : dim_ids (rebuild dm l) = ids_of l. Proof. rewrite dim_ids_ids_of, attrs_rebuild. reflexivity. Qed.
Lemma is_hier_rebuild dm l : is_hier (rebuild dm l) = is_hier dm. Proof. destruct dm; reflexivity. Qed.
Lemma rebuild_self dm : rebuild dm (attrs_of dm) = dm. Proof. destruct dm; reflexivity. Qed.

Lemma map_dim_inv f dm dm' : map_dim f dm = Some dm' -> exists l', f (attrs_of dm) = Some l' /\ dm' = rebuild dm l'.
Proof.
  destruct dm as [l|l]; cbn [map_dim attrs_of]; destruct (f l) as [l'|]; cbn [option_map]; intros H; try discriminate;
    injection H as <-; exists l'; split; reflexivity.
Qed.

(* the functions passed to edit_dim by the three attribute edits *)
Definition del_fn (n : str) := map_dim (fun l => if amem n l then Some (aremove n l) else None).
Definition off (a : attribute) : attribute := {| a_id := a_id a; a_hyb := a_hyb a; a_enc := false |}.
Definition disable_fn (n : str) :=
  map_dim (fun l => match alookup n l with Some a => Some (areplace n (off a) l) | None => None end).
Definition rename_fn (n n' : str) (dm : dimension) : option dimension :=
  match dm with
  | Anarchy l => if amem n' l then None else
                 match alookup n l with Some a => Some (Anarchy (aremove n l ++ [(n', a)])) | None => None end
  | Hierarchy l => if amem n l then (if amem n' l then None else Some (Hierarchy (arename n n' l))) else None
  end.
Lemma del_attribute_fn d n : del_attribute d n = edit_dim d (del_fn n). Proof. reflexivity. Qed.
Lemma disable_attribute_fn d n : disable_attribute d n = edit_dim d (disable_fn n). Proof. reflexivity. Qed.
Lemma rename_attribute_fn d n n' : rename_attribute d n n' = edit_dim d (rename_fn n n'). Proof. reflexivity. Qed.

Lemma del_fn_spec n dm dm' : del_fn n dm = Some dm' ->
  exists pre a post, attrs_of dm = pre ++ (n, a) :: post /\ ~ In n (keys pre) /\ dm' = rebuild dm (pre ++ post).
Proof.
  intros H. apply map_dim_inv in H. destruct H as (l' & Hf & ->). unfold amem in Hf.
  destruct (alookup n (attrs_of dm)) as [a|] eqn:Ea; [|discriminate]. injection Hf as <-.
  destruct (alookup_split _ _ _ Ea) as (pre & post & El & Hn). exists pre, a, post.
  split; [exact El|]. split; [exact Hn|]. rewrite El, aremove_mid by exact Hn. reflexivity.
Qed.
Lemma disable_fn_spec n dm dm' : disable_fn n dm = Some dm' ->
  exists pre a post, attrs_of dm = pre ++ (n, a) :: post /\ ~ In n (keys pre) /\ dm' = rebuild dm (pre ++ (n, off a) :: post).
Proof.
  intros H. apply map_dim_inv in H. destruct H as (l' & Hf & ->).
  destruct (alookup n (attrs_of dm)) as [a|] eqn:Ea; [|discriminate]. injection Hf as <-.
  destruct (alookup_split _ _ _ Ea) as (pre & post & El & Hn). exists pre, a, post.
  split; [exact El|]. split; [exact Hn|]. rewrite El, areplace_mid by exact Hn. reflexivity.
Qed.
Lemma rename_fn_spec n n' dm dm' : rename_fn n n' dm = Some dm' ->
  exists pre a post, attrs_of dm = pre ++ (n, a) :: post /\ ~ In n (keys pre) /\ ~ In n' (keys (attrs_of dm)) /\
    dm' = match dm with
          | Anarchy _ => Anarchy ((pre ++ post) ++ [(n', a)])
          | Hierarchy _ => Hierarchy (pre ++ (n', a) :: post)
          end.
Proof.
  destruct dm as [l|l]; cbn [rename_fn attrs_of]; intros H.
  - destruct (amem n' l) eqn:Em'; [discriminate|]. destruct (alookup n l) as [a|] eqn:Ea; [|discriminate]. injection H as <-.
    destruct (alookup_split _ _ _ Ea) as (pre & post & El & Hn). exists pre, a, post.
    split; [exact El|]. split; [exact Hn|]. split; [apply amem_false; exact Em'|]. rewrite El, aremove_mid by exact Hn. reflexivity.
  - destruct (amem n l) eqn:Em; [|discriminate]. destruct (amem n' l) eqn:Em'; [discriminate|]. injection H as <-.
    unfold amem in Em. destruct (alookup n l) as [a|] eqn:Ea; [|discriminate].
    destruct (alookup_split _ _ _ Ea) as (pre & post & El & Hn). exists pre, a, post.
    split; [exact El|]. split; [exact Hn|]. split; [apply amem_false; exact Em'|]. rewrite El, arename_mid by exact Hn. reflexivity.
Qed.

(* what wfb_replace needs about a dimension-level step that allocates no identifier *)
Definition dstep (dm dm' : dimension) : Prop :=
  NoDup (names_of (attrs_of dm')) /\ NoDup (dim_ids dm') /\ incl (dim_ids dm') (dim_ids dm).

Lemma dstep_del n dm dm' : NoDup (names_of (attrs_of dm)) -> NoDup (dim_ids dm) -> del_fn n dm = Some dm' -> dstep dm dm'.
Proof.
  intros Hn Hi H. destruct (del_fn_spec _ _ _ H) as (pre & a & post & El & _ & ->).
  rewrite dim_ids_ids_of, El in Hi. rewrite El in Hn. rewrite names_mid in Hn. rewrite ids_mid in Hi.
  unfold dstep. rewrite attrs_rebuild, ids_rebuild, dim_ids_ids_of, El, names_app, ids_app, ids_mid.
  split; [apply NoDup_remove_1 in Hn; exact Hn|]. split; [apply NoDup_remove_1 in Hi; exact Hi|].
  intros i Hin. apply in_app_iff in Hin. apply in_app_iff. destruct Hin as [Hin|Hin]; [left; exact Hin|right; right; exact Hin].
Qed.
Lemma dstep_disable n dm dm' : NoDup (names_of (attrs_of dm)) -> NoDup (dim_ids dm) -> disable_fn n dm = Some dm' -> dstep dm dm'.
Proof.
  intros Hn Hi H. destruct (disable_fn_spec _ _ _ H) as (pre & a & post & El & _ & ->).
  rewrite dim_ids_ids_of, El in Hi. rewrite El in Hn.
  unfold dstep. rewrite attrs_rebuild, ids_rebuild, dim_ids_ids_of, El.
  rewrite names_mid in *. rewrite !ids_mid in *. cbn [off a_id].
  split; [exact Hn|]. split; [exact Hi|]. intros i Hin. exact Hin.
Qed.
Lemma dstep_rename n n' dm dm' : NoDup (names_of (attrs_of dm)) -> NoDup (dim_ids dm) -> rename_fn n n' dm = Some dm' -> dstep dm dm'.
Proof.
  intros Hn Hi H. destruct (rename_fn_spec _ _ _ _ H) as (pre & a & post & El & _ & Hn' & Edm').
  rewrite dim_ids_ids_of, El in Hi. unfold keys in Hn'. fold (names_of (attrs_of dm)) in Hn'. rewrite El in Hn, Hn'.
  assert (Hn2 : NoDup (names_of (pre ++ (n', a) :: post))). { rewrite names_mid in *. eapply NoDup_mid_swap; eassumption. }
  assert (Hi2 : ids_of (pre ++ (n', a) :: post) = ids_of (pre ++ (n, a) :: post)) by (rewrite !ids_mid; reflexivity).
  destruct dm as [l|l]; subst dm'; unfold dstep; cbn [attrs_of] in *; rewrite dim_ids_ids_of; cbn [attrs_of]; rewrite (dim_ids_ids_of (_ l)); cbn [attrs_of]; rewrite El.
  - assert (Hp : Permutation (pre ++ (n', a) :: post) ((pre ++ post) ++ [(n', a)])).
    { rewrite <- Permutation_middle. rewrite <- Permutation_cons_append. reflexivity. }
    split; [eapply Permutation_NoDup_map; [exact Hp|exact Hn2]|].
    split; [unfold ids_of; eapply Permutation_NoDup_map; [exact Hp|]; fold (ids_of (pre ++ (n', a) :: post)); rewrite Hi2; exact Hi|].
    intros i Hin. rewrite <- Hi2. unfold ids_of in *. eapply Permutation_in; [apply Permutation_map; symmetry; exact Hp|exact Hin].
  - split; [exact Hn2|]. rewrite Hi2. split; [exact Hi|]. intros i Hin. exact Hin.
Qed.

(* adding an attribute to a dimension with distinct names: a permutation of (new :: old) *)
Lemma dim_add_attribute_perm dm n hyb after id dm' :
  NoDup (names_of (attrs_of dm)) -> dim_add_attribute dm n hyb after id = Ok dm' ->
  Permutation ((n, newattr id hyb) :: attrs_of dm) (attrs_of dm') /\ ~ In n (names_of (attrs_of dm)) /\ is_hier dm' = is_hier dm.
Proof.
  intros Hndm Ea. destruct dm as [l|l]; cbn [dim_add_attribute] in Ea.
  - destruct (amem n l) eqn:Em; [discriminate|]. injection Ea as <-. cbn [attrs_of]. split; [apply Permutation_cons_append|].
    split; [apply amem_false; exact Em|reflexivity].
  - destruct (amem n l) eqn:Em; [discriminate|].
    destruct (match after with Some a => negb (amem a l) | None => false end) eqn:Eb; [discriminate|].
    assert (Hnn : ~ In n (keys l)) by (apply amem_false; exact Em).
    assert (Haft : forall a, after = Some a -> In a (keys l)).
    { intros a ->. apply negb_false_iff in Eb. apply amem_true. exact Eb. }
    cbn [attrs_of] in Hndm.
    destruct (hier_insert_spec l n hyb after id Hndm Hnn Haft) as [(L & x & R & El & _ & _ & Hr)|(_ & _ & Hr)];
      unfold dim_add_attribute in Hr; rewrite Em, Eb in Hr; rewrite Hr in Ea; injection Ea as <-; cbn [attrs_of is_hier].
    + split; [|split; [exact Hnn|reflexivity]]. subst l.
      change (L ++ x :: (n, newattr id hyb) :: R) with (L ++ [x] ++ (n, newattr id hyb) :: R).
      rewrite app_assoc. replace (L ++ x :: R) with ((L ++ [x]) ++ R) by (rewrite <- app_assoc; reflexivity). apply Permutation_middle.
    + split; [reflexivity|split; [exact Hnn|reflexivity]].
Qed.

(* exact position of the new attribute (other entries keep their place) *)
Lemma dim_add_attribute_shape dm n hyb after id dm' :
  NoDup (names_of (attrs_of dm)) -> dim_add_attribute dm n hyb after id = Ok dm' ->
  exists L R, attrs_of dm = L ++ R /\ attrs_of dm' = L ++ (n, newattr id hyb) :: R /\ ~ In n (names_of (attrs_of dm)).
Proof.
  intros Hndm Ea. destruct dm as [l|l]; cbn [dim_add_attribute] in Ea.
  - destruct (amem n l) eqn:Em; [discriminate|]. injection Ea as <-. cbn [attrs_of]. exists l, []. rewrite app_nil_r.
    split; [reflexivity|]. split; [reflexivity|apply amem_false; exact Em].
  - destruct (amem n l) eqn:Em; [discriminate|].
    destruct (match after with Some a => negb (amem a l) | None => false end) eqn:Eb; [discriminate|].
    assert (Hnn : ~ In n (keys l)) by (apply amem_false; exact Em).
    assert (Haft : forall a, after = Some a -> In a (keys l)).
    { intros a ->. apply negb_false_iff in Eb. apply amem_true. exact Eb. }
    cbn [attrs_of] in Hndm.
    destruct (hier_insert_spec l n hyb after id Hndm Hnn Haft) as [(L & x & R & El & _ & _ & Hr)|(_ & _ & Hr)];
      unfold dim_add_attribute in Hr; rewrite Em, Eb in Hr; rewrite Hr in Ea; injection Ea as <-; cbn [attrs_of].
    + exists (L ++ [x]), R. rewrite <- !app_assoc. cbn [app]. split; [exact El|]. split; [reflexivity|exact Hnn].
    + exists [], l. split; [reflexivity|]. split; [reflexivity|exact Hnn].
Qed.
Print Assumptions dstep_rename.
Print Assumptions dim_add_attribute_shape.
