(* MacStreamLemmas.v : stream-level lemmas for property C08 (no MAC here): boolean equalities, re-framing and its
   decision procedure, unique split under a fixed framing, tampering classes, witnesses of the known finding F11.
   The MAC-level theorems are in MacStreamProofs.v (which re-exports this file). *)
From Coq Require Import List Arith NArith Bool Lia.
From CC Require Import MacStream.
Import ListNotations.

(* ================= boolean equalities ================= *)
Lemma list_eqb_spec {A} (eqb : A -> A -> bool) :
  (forall x y, eqb x y = true <-> x = y) -> forall l l', list_eqb eqb l l' = true <-> l = l'.
Proof.
  intros H l; induction l as [|a l IH]; intros [|b l']; cbn [list_eqb].
  - split; reflexivity.
  - split; discriminate.
  - split; discriminate.
  - rewrite andb_true_iff, H, IH. split.
    + intros [E1 E2]; subst; reflexivity.
    + intros E; injection E as E1 E2; auto.
Qed.

Lemma option_eqb_spec {A} (eqb : A -> A -> bool) :
  (forall x y, eqb x y = true <-> x = y) -> forall o o', option_eqb eqb o o' = true <-> o = o'.
Proof.
  intros H [x|] [y|]; cbn [option_eqb].
  - rewrite H. split; [intros E; subst; reflexivity | intros E; injection E as E; exact E].
  - split; discriminate.
  - split; discriminate.
  - split; reflexivity.
Qed.

Lemma bytes_eqb_spec : forall x y, bytes_eqb x y = true <-> x = y.
Proof. apply list_eqb_spec. intros x y; apply N.eqb_eq. Qed.

Lemma bsecret_eqb_spec : forall s s', bsecret_eqb s s' = true <-> s = s'.
Proof.
  intros [sk dk] [sk' dk']; unfold bsecret_eqb; cbn [bs_sk bs_dk].
  rewrite andb_true_iff, bytes_eqb_spec, (option_eqb_spec _ bytes_eqb_spec). split.
  - intros [E1 E2]; subst; reflexivity.
  - intros E; injection E as E1 E2; auto.
Qed.

Lemma chain_eqb_spec : forall c c', chain_eqb c c' = true <-> c = c'.
Proof.
  intros [r ch] [r' ch']; unfold chain_eqb; cbn [fst snd].
  rewrite andb_true_iff, bytes_eqb_spec, (list_eqb_spec _ bsecret_eqb_spec). split.
  - intros [E1 E2]; subst; reflexivity.
  - intros E; injection E as E1 E2; auto.
Qed.

Lemma id_eqb_spec : forall i i', id_eqb i i' = true <-> i = i'.
Proof. apply list_eqb_spec, bytes_eqb_spec. Qed.

Lemma ubody_eqb_spec : forall b b', ubody_eqb b b' = true <-> b = b'.
Proof.
  intros [i cs] [i' cs']; unfold ubody_eqb; cbn [b_id b_chains].
  rewrite andb_true_iff, (list_eqb_spec _ bytes_eqb_spec), (list_eqb_spec _ chain_eqb_spec). split.
  - intros [E1 E2]; subst; reflexivity.
  - intros E; injection E as E1 E2; auto.
Qed.

(* ================= re-framing ================= *)
Definition Reframing (b b' : ubody) : Prop := b <> b' /\ mac_stream b = mac_stream b'.

(* 5. the decision procedure used by the harness *)
Lemma reframing_of_spec : forall b b', reframing_of b b' = true <-> Reframing b b'.
Proof.
  intros b b'; unfold reframing_of, Reframing.
  rewrite andb_true_iff, negb_true_iff, bytes_eqb_spec. split.
  - intros [E N]; split; [|exact E]. intros Hb; apply ubody_eqb_spec in Hb; congruence.
  - intros [N E]; split; [exact E|]. destruct (ubody_eqb b b') eqn:Eb; [|reflexivity].
    apply ubody_eqb_spec in Eb; contradiction.
Qed.

Lemma Reframing_sym : forall b b', Reframing b b' -> Reframing b' b.
Proof. intros b b' [N E]; split; [congruence | symmetry; exact E]. Qed.

(* Any change of the body either changes the stream or is a re-framing (there is no third case). *)
Lemma tamper_dichotomy : forall b b', b <> b' -> mac_stream b <> mac_stream b' \/ Reframing b b'.
Proof.
  intros b b' N. destruct (bytes_eqb (mac_stream b) (mac_stream b')) eqn:E.
  - right; split; [exact N | apply bytes_eqb_spec; exact E].
  - left; intros H; apply bytes_eqb_spec in H; congruence.
Qed.

(* ================= list helpers ================= *)
Lemma app_len_inj {A} : forall (a a' x x' : list A),
  length a = length a' -> a ++ x = a' ++ x' -> a = a' /\ x = x'.
Proof.
  intros a; induction a as [|h a IH]; intros [|h' a'] x x' HL HE; cbn in HL; try discriminate.
  - split; [reflexivity | exact HE].
  - cbn [app] in HE. injection HE as E1 E2. injection HL as HL.
    destruct (IH a' x x' HL E2) as [Ea Ex]. subst; split; reflexivity.
Qed.

Lemma app_absorb_nil {A} : forall (d x : list A), d ++ x = x -> d = [].
Proof.
  intros d x H. apply (f_equal (@length A)) in H. rewrite app_length in H.
  destruct d as [|h d]; [reflexivity | cbn in H; lia].
Qed.

Lemma flat_map_app' {A B} (f : A -> list B) : forall l l', flat_map f (l ++ l') = flat_map f l ++ flat_map f l'.
Proof. intros l l'; induction l as [|a l IH]; cbn [flat_map app]; [reflexivity | rewrite IH, app_assoc; reflexivity]. Qed.

(* ================= fixed widths ================= *)
Section Widths.
  Variables sk_len dk_len : nat.

  Definition wf_secret (s : bsecret) : Prop :=
    length (bs_sk s) = sk_len /\ match bs_dk s with Some d => length d = dk_len | None => True end.
  Definition wf (b : ubody) : Prop :=
    Forall (fun m : bytes => length m = sk_len) (b_id b) /\
    Forall (fun c : bytes * list bsecret => Forall wf_secret (snd c)) (b_chains b).

  Lemma wfb_secret_spec : forall s, wfb_secret sk_len dk_len s = true <-> wf_secret s.
  Proof.
    intros [sk [d|]]; unfold wfb_secret, wf_secret; cbn [bs_sk bs_dk];
      rewrite andb_true_iff, ?Nat.eqb_eq; intuition.
  Qed.

  Lemma wfb_spec : forall b, wfb sk_len dk_len b = true <-> wf b.
  Proof.
    intros b; unfold wfb, wf. rewrite andb_true_iff, !forallb_forall, !Forall_forall. split.
    - intros [H1 H2]; split.
      + intros m Hm; apply Nat.eqb_eq, H1, Hm.
      + intros c Hc. apply Forall_forall. intros s Hs. apply wfb_secret_spec.
        specialize (H2 c Hc). rewrite forallb_forall in H2. apply H2, Hs.
    - intros [H1 H2]; split.
      + intros m Hm; apply Nat.eqb_eq, H1, Hm.
      + intros c Hc. apply forallb_forall. intros s Hs. apply wfb_secret_spec.
        specialize (H2 c Hc). rewrite Forall_forall in H2. apply H2, Hs.
  Qed.

  (* --- unique split of the stream once the framing is fixed --- *)
  Lemma markers_inj : forall (l l' : list bytes) x x',
    Forall (fun m : bytes => length m = sk_len) l -> Forall (fun m : bytes => length m = sk_len) l' ->
    length l = length l' -> concat l ++ x = concat l' ++ x' -> l = l' /\ x = x'.
  Proof.
    intros l; induction l as [|m l IH]; intros [|m' l'] x x' W W' HL HE; cbn in HL; try discriminate.
    - split; [reflexivity | exact HE].
    - pose proof (Forall_inv W) as Wm; pose proof (Forall_inv_tail W) as Wl.
      pose proof (Forall_inv W') as Wm'; pose proof (Forall_inv_tail W') as Wl'. cbn beta in Wm, Wm'.
      cbn [concat] in HE. rewrite <- !app_assoc in HE.
      destruct (app_len_inj m m' _ _ (eq_trans Wm (eq_sym Wm')) HE) as [Em HE'].
      injection HL as HL. destruct (IH l' x x' Wl Wl' HL HE') as [El Ex]. subst; split; reflexivity.
  Qed.

  Lemma secret_inj : forall s s' x x', wf_secret s -> wf_secret s' -> is_hyb s = is_hyb s' ->
    secret_stream s ++ x = secret_stream s' ++ x' -> s = s' /\ x = x'.
  Proof.
    intros [sk dk] [sk' dk'] x x' [W1 W2] [W1' W2'] HF HE.
    unfold secret_stream, is_hyb in *; cbn [bs_sk bs_dk] in *.
    rewrite <- !app_assoc in HE.
    destruct (app_len_inj sk sk' _ _ (eq_trans W1 (eq_sym W1')) HE) as [Es HE']. subst sk'.
    destruct dk as [d|], dk' as [d'|]; try discriminate.
    - destruct (app_len_inj d d' _ _ (eq_trans W2 (eq_sym W2')) HE') as [Ed Ex]. subst d' x'; split; reflexivity.
    - cbn [app] in HE'. subst x'; split; reflexivity.
  Qed.

  Lemma secrets_inj : forall (ch ch' : list bsecret) x x',
    Forall wf_secret ch -> Forall wf_secret ch' -> map is_hyb ch = map is_hyb ch' ->
    flat_map secret_stream ch ++ x = flat_map secret_stream ch' ++ x' -> ch = ch' /\ x = x'.
  Proof.
    intros ch; induction ch as [|s ch IH]; intros [|s' ch'] x x' W W' HF HE; cbn [map] in HF; try discriminate.
    - split; [reflexivity | exact HE].
    - pose proof (Forall_inv W) as Ws; pose proof (Forall_inv_tail W) as Wc.
      pose proof (Forall_inv W') as Ws'; pose proof (Forall_inv_tail W') as Wc'.
      injection HF as HF1 HF2. cbn [flat_map] in HE. rewrite <- !app_assoc in HE.
      destruct (secret_inj s s' _ _ Ws Ws' HF1 HE) as [Es HE'].
      destruct (IH ch' x x' Wc Wc' HF2 HE') as [Ec Ex]. subst s' ch' x'; split; reflexivity.
  Qed.

  Definition chain_framing (c : bytes * list bsecret) : nat * list bool := (length (fst c), map is_hyb (snd c)).

  Lemma framing_chains : forall b, snd (framing b) = map chain_framing (b_chains b).
  Proof.
    intros b; unfold framing; cbn [snd]. apply map_ext. intros [r ch]; reflexivity.
  Qed.

  Lemma chains_inj : forall (l l' : list (bytes * list bsecret)),
    Forall (fun c : bytes * list bsecret => Forall wf_secret (snd c)) l ->
    Forall (fun c : bytes * list bsecret => Forall wf_secret (snd c)) l' ->
    map chain_framing l = map chain_framing l' ->
    flat_map chain_stream l = flat_map chain_stream l' -> l = l'.
  Proof.
    intros l; induction l as [|c l IH]; intros [|c' l'] W W' HF HE; cbn [map] in HF; try discriminate.
    - reflexivity.
    - pose proof (Forall_inv W) as Wc; pose proof (Forall_inv_tail W) as Wl.
      pose proof (Forall_inv W') as Wc'; pose proof (Forall_inv_tail W') as Wl'.
      injection HF as HF1 HF2 HF3. destruct c as [r ch], c' as [r' ch']; cbn [fst snd] in *.
      cbn [flat_map] in HE. unfold chain_stream in HE at 1 3. cbn [fst snd] in HE. rewrite <- !app_assoc in HE.
      destruct (app_len_inj r r' _ _ HF1 HE) as [Er HE'].
      destruct (secrets_inj ch ch' _ _ Wc Wc' HF2 HE') as [Ech HE''].
      rewrite (IH l' Wl Wl' HF3 HE''). subst r' ch'; reflexivity.
  Qed.

  (* 2. THE KEY LEMMA: with fixed widths, the stream determines the body once the framing is known. *)
  Theorem mac_stream_inj_on_framed : forall b b',
    wf b -> wf b' -> framing b = framing b' -> mac_stream b = mac_stream b' -> b = b'.
  Proof.
    intros b b' [W1 W2] [W1' W2'] HF HE.
    assert (HF1 : length (b_id b) = length (b_id b')) by exact (f_equal fst HF).
    assert (HF2 : map chain_framing (b_chains b) = map chain_framing (b_chains b')).
    { rewrite <- !framing_chains. exact (f_equal snd HF). }
    unfold mac_stream in HE.
    destruct (markers_inj _ _ _ _ W1 W1' HF1 HE) as [Ei HE'].
    pose proof (chains_inj _ _ W2 W2' HF2 HE') as Ec.
    destruct b as [i cs], b' as [i' cs']; cbn [b_id b_chains] in *. subst i' cs'; reflexivity.
  Qed.

  Corollary reframing_changes_framing : forall b b', wf b -> wf b' -> Reframing b b' -> framing b <> framing b'.
  Proof. intros b b' W W' [N E] HF. apply N. apply mac_stream_inj_on_framed; assumption. Qed.

  (* (d) same framing, any byte of any marker / right name / secret changed: the stream changes. *)
  Corollary same_framing_tamper_changes_stream : forall b b',
    wf b -> wf b' -> framing b = framing b' -> b <> b' -> mac_stream b <> mac_stream b'.
  Proof. intros b b' W W' HF N E. apply N. apply mac_stream_inj_on_framed; assumption. Qed.

  (* --- size of the stream --- *)
  Lemma list_sum_cons : forall a l, list_sum (a :: l) = a + list_sum l.
  Proof. reflexivity. Qed.

  Lemma secrets_stream_length : forall ch, Forall wf_secret ch ->
    length (flat_map secret_stream ch) =
    list_sum (map (fun h : bool => if h then sk_len + dk_len else sk_len) (map is_hyb ch)).
  Proof.
    intros ch W; induction W as [|s ch [W1 W2] _ IH]; [reflexivity|].
    cbn [flat_map map]. rewrite app_length, IH.
    unfold secret_stream, is_hyb at 2. rewrite app_length, W1. revert W2.
    destruct (bs_dk s) as [d|]; intros W2; rewrite list_sum_cons; cbn [length]; lia.
  Qed.

  Theorem mac_stream_length : forall b, wf b -> length (mac_stream b) = framing_size sk_len dk_len (framing b).
  Proof.
    intros b [W1 W2]. unfold mac_stream, framing_size. rewrite app_length, framing_chains.
    change (fst (framing b)) with (length (b_id b)). f_equal.
    - induction W1 as [|m l Wm _ IH]; [reflexivity|]. cbn [concat length]. rewrite app_length, IH, Wm. lia.
    - induction W2 as [|c l Wc _ IH]; [reflexivity|]. cbn [flat_map map]. rewrite app_length, IH.
      rewrite list_sum_cons. f_equal.
      unfold chain_stream, chain_framing_size, chain_framing; cbn [fst snd].
      rewrite app_length, (secrets_stream_length _ Wc). reflexivity.
  Qed.

  (* Any tampering that changes the total framed size (a right added or removed, a secret added or removed,
     a flavour changed, a name lengthened ... without compensation elsewhere) changes the stream. *)
  Corollary size_change_changes_stream : forall b b', wf b -> wf b' ->
    framing_size sk_len dk_len (framing b) <> framing_size sk_len dk_len (framing b') -> mac_stream b <> mac_stream b'.
  Proof. intros b b' W W' N E. apply N. rewrite <- !mac_stream_length by assumption. rewrite E; reflexivity. Qed.

  Lemma chain_stream_nonempty : forall c, 0 < sk_len -> Forall wf_secret (snd c) -> snd c <> [] -> chain_stream c <> [].
  Proof.
    intros [r [|s ch]] Hpos W N; cbn [snd] in *; [contradiction|].
    destruct (Forall_inv W) as [W1 _]. unfold chain_stream, secret_stream; cbn [fst snd flat_map].
    intros E. apply (f_equal (@length _)) in E. rewrite !app_length, W1 in E. cbn [length] in E. lia.
  Qed.
End Widths.

(* ================= tampering classes that need no width hypothesis ================= *)
Definition with_chains (id : list bytes) (cs : list (bytes * list bsecret)) : ubody := {| b_id := id; b_chains := cs |}.

Lemma mac_stream_chains_app : forall id l l',
  mac_stream (with_chains id (l ++ l')) = concat id ++ flat_map chain_stream l ++ flat_map chain_stream l'.
Proof. intros; unfold mac_stream, with_chains; cbn [b_id b_chains]. rewrite flat_map_app'; reflexivity. Qed.

(* a right (with its chain) added or removed anywhere *)
Lemma remove_chain_changes_stream : forall id pre c post, chain_stream c <> [] ->
  mac_stream (with_chains id (pre ++ c :: post)) <> mac_stream (with_chains id (pre ++ post)).
Proof.
  intros id pre c post N E. rewrite !mac_stream_chains_app in E. cbn [flat_map] in E.
  apply app_inv_head in E. apply app_inv_head in E. apply N. exact (app_absorb_nil _ _ E).
Qed.

(* a right (with its chain) duplicated *)
Lemma duplicate_chain_changes_stream : forall id pre c mid post, chain_stream c <> [] ->
  mac_stream (with_chains id (pre ++ c :: mid ++ c :: post)) <> mac_stream (with_chains id (pre ++ c :: mid ++ post)).
Proof.
  intros id pre c mid post N.
  replace (pre ++ c :: mid ++ c :: post) with ((pre ++ c :: mid) ++ c :: post) by (rewrite <- app_assoc; reflexivity).
  replace (pre ++ c :: mid ++ post) with ((pre ++ c :: mid) ++ post) by (rewrite <- app_assoc; reflexivity).
  apply remove_chain_changes_stream; exact N.
Qed.

(* with 0 < sk_len, every chain a deserialized key can hold (insert_new_chain drops empty chains) has a non-empty
   stream: adding, removing or duplicating any right of such a key changes the stream *)
Corollary remove_nonempty_chain_changes_stream : forall sk_len dk_len id pre c post, 0 < sk_len ->
  Forall (wf_secret sk_len dk_len) (snd c) -> chain_nonempty c = true ->
  mac_stream (with_chains id (pre ++ c :: post)) <> mac_stream (with_chains id (pre ++ post)).
Proof.
  intros sk_len dk_len id pre c post Hpos W Hne. apply remove_chain_changes_stream.
  apply (chain_stream_nonempty sk_len dk_len c Hpos W). unfold chain_nonempty in Hne.
  destruct (snd c); [discriminate Hne | discriminate].
Qed.

(* a changed flavour (hybridized -> classic, everything else kept) *)
Lemma flavour_change_changes_stream : forall id pre r spre sk dk spost post, dk <> [] ->
  mac_stream (with_chains id (pre ++ (r, spre ++ {| bs_sk := sk; bs_dk := Some dk |} :: spost) :: post)) <>
  mac_stream (with_chains id (pre ++ (r, spre ++ {| bs_sk := sk; bs_dk := None |} :: spost) :: post)).
Proof.
  intros id pre r spre sk dk spost post N E. rewrite !mac_stream_chains_app in E. cbn [flat_map] in E.
  unfold chain_stream in E at 2 5. cbn [fst snd] in E. rewrite !flat_map_app' in E. cbn [flat_map] in E.
  unfold secret_stream in E at 2 5. cbn [bs_sk bs_dk] in E. rewrite <- !app_assoc in E.
  do 5 apply app_inv_head in E. cbn [app] in E. apply N. exact (app_absorb_nil _ _ E).
Qed.

(* a secret removed from a chain *)
Lemma remove_secret_changes_stream : forall id pre r spre s spost post, secret_stream s <> [] ->
  mac_stream (with_chains id (pre ++ (r, spre ++ s :: spost) :: post)) <>
  mac_stream (with_chains id (pre ++ (r, spre ++ spost) :: post)).
Proof.
  intros id pre r spre s spost post N E. rewrite !mac_stream_chains_app in E. cbn [flat_map] in E.
  unfold chain_stream in E at 2 5. cbn [fst snd] in E. rewrite !flat_map_app' in E. cbn [flat_map] in E.
  rewrite <- !app_assoc in E. do 4 apply app_inv_head in E. apply N. exact (app_absorb_nil _ _ E).
Qed.

(* ================= 4. the known finding: re-framings exist ================= *)
Definition cl (s : bytes) : bsecret := {| bs_sk := s; bs_dk := None |}.
Definition hy (s d : bytes) : bsecret := {| bs_sk := s; bs_dk := Some d |}.

Lemma secret_stream_cl : forall s, secret_stream (cl s) = s.
Proof. intros s; unfold secret_stream, cl; cbn [bs_sk bs_dk]. apply app_nil_r. Qed.
Lemma secret_stream_hy : forall s d, secret_stream (hy s d) = s ++ d.
Proof. reflexivity. Qed.
Lemma chain_stream_pair : forall r ch, chain_stream (r, ch) = r ++ flat_map secret_stream ch.
Proof. reflexivity. Qed.
Lemma flat_map_cons' {A B} (f : A -> list B) : forall a l, flat_map f (a :: l) = f a ++ flat_map f l.
Proof. reflexivity. Qed.
Lemma flat_map_cl : forall chunks, flat_map secret_stream (map cl chunks) = concat chunks.
Proof.
  intros chunks; induction chunks as [|c cs IH]; [reflexivity|].
  cbn [map concat]. rewrite flat_map_cons', secret_stream_cl, IH. reflexivity.
Qed.
Ltac stream_norm :=
  rewrite ?mac_stream_chains_app, ?flat_map_cons', ?chain_stream_pair, ?flat_map_app', ?flat_map_cons',
          ?flat_map_cl, ?secret_stream_cl, ?secret_stream_hy; cbn [flat_map];
  rewrite <- ?app_assoc, ?app_nil_r; cbn [app]; rewrite <- ?app_assoc.

Lemma neq_by_length {A} : forall l l' : list A, length l <> length l' -> l <> l'.
Proof. intros l l' N E; subst; contradiction. Qed.

Lemma with_chains_neq : forall id cs cs', cs <> cs' -> with_chains id cs <> with_chains id cs'.
Proof. intros id cs cs' N E. apply N. exact (f_equal b_chains E). Qed.

(* Class 1: a chain split at an empty right name (the broadcast right is the empty byte string). *)
Theorem split_chain_reframing : forall id pre r ch1 ch2 post,
  Reframing (with_chains id (pre ++ (r, ch1 ++ ch2) :: post))
            (with_chains id (pre ++ (r, ch1) :: ([], ch2) :: post)).
Proof.
  intros id pre r ch1 ch2 post; split.
  - apply with_chains_neq, neq_by_length. rewrite !app_length; cbn [length]; lia.
  - do 2 stream_norm. reflexivity.
Qed.

(* Class 2: a hybridized secret, last of its chain, re-read as classic, its dk absorbed by the next right name. *)
Theorem hyb_absorbed_reframing : forall id pre r spre sk dk r2 ch2 post,
  Reframing (with_chains id (pre ++ (r, spre ++ [hy sk dk]) :: (r2, ch2) :: post))
            (with_chains id (pre ++ (r, spre ++ [cl sk]) :: (dk ++ r2, ch2) :: post)).
Proof.
  intros id pre r spre sk dk r2 ch2 post; split.
  - apply with_chains_neq. intros E. apply app_inv_head in E. injection E as E _.
    apply app_inv_head in E. discriminate.
  - do 2 stream_norm. reflexivity.
Qed.

(* Class 3: when dk_len is a multiple of sk_len (1632 = 51 * 32 in the default build) a hybridized secret can be
   re-read, in place, as a run of classic secrets. *)
Theorem hyb_as_classics_reframing : forall id pre r spre sk chunks spost post,
  Reframing (with_chains id (pre ++ (r, spre ++ hy sk (concat chunks) :: spost) :: post))
            (with_chains id (pre ++ (r, spre ++ cl sk :: map cl chunks ++ spost) :: post)).
Proof.
  intros id pre r spre sk chunks spost post; split.
  - apply with_chains_neq. intros E. apply app_inv_head in E. injection E as E.
    apply app_inv_head in E. discriminate.
  - do 2 stream_norm. reflexivity.
Qed.

(* The witness of the task statement, for arbitrary widths:
     chains ([],[n1;o1]) (r0,[n0;o0])   versus   ([],[n1]) ([],[o1]) (r0,[n0;o0]). *)
Definition wit_a (id : list bytes) (r0 n1 o1 n0 o0 : bytes) : ubody :=
  with_chains id [([], [cl n1; cl o1]); (r0, [cl n0; cl o0])].
Definition wit_b (id : list bytes) (r0 n1 o1 n0 o0 : bytes) : ubody :=
  with_chains id [([], [cl n1]); ([], [cl o1]); (r0, [cl n0; cl o0])].

Theorem C08_known_witness_general : forall sk_len dk_len id r0 n1 o1 n0 o0,
  Forall (fun m : bytes => length m = sk_len) id ->
  length n1 = sk_len -> length o1 = sk_len -> length n0 = sk_len -> length o0 = sk_len ->
  wf sk_len dk_len (wit_a id r0 n1 o1 n0 o0) /\ wf sk_len dk_len (wit_b id r0 n1 o1 n0 o0) /\
  Reframing (wit_a id r0 n1 o1 n0 o0) (wit_b id r0 n1 o1 n0 o0).
Proof.
  intros sk_len dk_len id r0 n1 o1 n0 o0 Wid L1 L2 L3 L4.
  assert (C : forall s, length s = sk_len -> wf_secret sk_len dk_len (cl s)) by (intros s Hs; split; [exact Hs | exact I]).
  split; [|split].
  - split; [exact Wid|]. unfold wit_a, with_chains; cbn [b_chains]. repeat constructor; cbn [snd]; auto.
  - split; [exact Wid|]. unfold wit_b, with_chains; cbn [b_chains]. repeat constructor; cbn [snd]; auto.
  - exact (split_chain_reframing id [] [] [cl n1] [cl o1] [(r0, [cl n0; cl o0])]).
Qed.

(* 4. C08 as stated is false for the stream alone: two different well-formed bodies, one stream. *)
Theorem C08_known_witness : forall sk_len dk_len, exists b b', wf sk_len dk_len b /\ wf sk_len dk_len b' /\ Reframing b b'.
Proof.
  intros sk_len dk_len.
  exists (wit_a [repeat 7%N sk_len] [0%N] (repeat 1%N sk_len) (repeat 2%N sk_len) (repeat 3%N sk_len) (repeat 4%N sk_len)).
  exists (wit_b [repeat 7%N sk_len] [0%N] (repeat 1%N sk_len) (repeat 2%N sk_len) (repeat 3%N sk_len) (repeat 4%N sk_len)).
  apply C08_known_witness_general; try apply repeat_length.
  constructor; [apply repeat_length | constructor].
Qed.

(* second witness class, well-formed for arbitrary widths *)
Theorem C08_known_witness_hyb : forall sk_len dk_len, exists b b', wf sk_len dk_len b /\ wf sk_len dk_len b' /\ Reframing b b' /\
  framing_size sk_len dk_len (framing b) = framing_size sk_len dk_len (framing b').
Proof.
  intros sk_len dk_len.
  set (sk := repeat 1%N sk_len). set (dk := repeat 2%N dk_len). set (s2 := repeat 3%N sk_len).
  exists (with_chains [] [([], [hy sk dk]); ([0%N], [cl s2])]).
  exists (with_chains [] [([], [cl sk]); (dk ++ [0%N], [cl s2])]).
  assert (Lsk : length sk = sk_len) by apply repeat_length.
  assert (Ldk : length dk = dk_len) by apply repeat_length.
  assert (Ls2 : length s2 = sk_len) by apply repeat_length.
  split; [|split; [|split]].
  - split; [constructor|]. cbn [with_chains b_chains]. repeat constructor; cbn [snd bs_sk bs_dk]; auto.
  - split; [constructor|]. cbn [with_chains b_chains]. repeat constructor; cbn [snd bs_sk bs_dk]; auto.
  - exact (hyb_absorbed_reframing [] [] [] [] sk dk [0%N] [cl s2] []).
  - unfold framing_size, framing, chain_framing_size; cbn [with_chains b_id b_chains map fst snd length list_sum hy cl bs_dk].
    rewrite app_length, Ldk. cbn [length]. rewrite !list_sum_cons. cbn [list_sum fold_right]. lia.
Qed.

Print Assumptions reframing_of_spec.
Print Assumptions mac_stream_inj_on_framed.
Print Assumptions mac_stream_length.
Print Assumptions remove_nonempty_chain_changes_stream.
Print Assumptions flavour_change_changes_stream.
Print Assumptions split_chain_reframing.
Print Assumptions hyb_absorbed_reframing.
Print Assumptions hyb_as_classics_reframing.
Print Assumptions C08_known_witness_general.
Print Assumptions C08_known_witness.
Print Assumptions C08_known_witness_hyb.
