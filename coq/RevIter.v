(* C14 / C04: the revision iterator of a user key (`RevisionVec::revisions()`, src/data_struct/revision_vec.rs) and the
   accessor `tracing_level`, pinned (commit 8f3c295) and repaired (HEAD) variants, over chains = list (list A).

   `decaps` runs `for revision in usk.secrets.revisions() { ... }`: it returns only if the iterator ends.
   pinned:  next() = ks.zip(ls).map(|it| it.next()).collect::<Option<Vec<_>>>()
            = None as soon as one chain is exhausted; with ZERO chains it is Some([]) for ever.
   fixed:   next() = the heads of the chains that still have one; None when there is none. *)
From Coq Require Import List NArith Bool Arith Lia Permutation.
Import ListNotations.
Local Open Scope nat_scope.

Section RevIter.
  Context {A : Type}.

  (* collect into Option: a single exhausted chain ends the iteration *)
  Fixpoint rev_next_pinned (chs : list (list A)) : option (list A * list (list A)) :=
    match chs with
    | [] => Some ([], [])
    | [] :: _ => None
    | (x :: t) :: rest =>
        match rev_next_pinned rest with Some (hs, ts) => Some (x :: hs, t :: ts) | None => None end
    end.

  (* filter_map of the heads; an exhausted iterator stays exhausted *)
  Definition heads (chs : list (list A)) : list A := flat_map (fun c => match c with [] => [] | x :: _ => [x] end) chs.
  Definition tails (chs : list (list A)) : list (list A) := map (@tl A) chs.
  Definition rev_next_fixed (chs : list (list A)) : option (list A * list (list A)) :=
    match heads chs with [] => None | hs => Some (hs, tails chs) end.

  Definition rev_next (fixed : bool) := if fixed then rev_next_fixed else rev_next_pinned.

  (* the `for` loop: None = still running after [fuel] calls of next() *)
  Fixpoint revisions_fuel (fixed : bool) (fuel : nat) (chs : list (list A)) : option (list (list A)) :=
    match fuel with
    | O => None
    | S fu => match rev_next fixed chs with
              | None => Some []
              | Some (hs, ts) => match revisions_fuel fixed fu ts with Some r => Some (hs :: r) | None => None end
              end
    end.

  Lemma revisions_fuel_S fixed fu chs : revisions_fuel fixed (S fu) chs =
    match rev_next fixed chs with
    | None => Some []
    | Some (hs, ts) => match revisions_fuel fixed fu ts with Some r => Some (hs :: r) | None => None end
    end.
  Proof. reflexivity. Qed.

  Definition maxlen (chs : list (list A)) : nat := fold_right max 0 (map (@length A) chs).

  Lemma rev_next_fixed_none chs : rev_next_fixed chs = None <-> heads chs = [].
  Proof. unfold rev_next_fixed. destruct (heads chs); split; intros H; try reflexivity; discriminate. Qed.
  (* "None iff no chain has a head" *)
  Lemma heads_nil chs : heads chs = [] <-> Forall (fun c => c = []) chs.
  Proof.
    induction chs as [|c chs IH]; cbn [heads flat_map]; [split; constructor|]. fold (heads chs). split.
    - intros H. apply app_eq_nil in H. destruct H as [Hc Hr]. constructor; [destruct c; [reflexivity|discriminate]|apply IH, Hr].
    - intros H. inversion H as [|c' l Hc Hr]; subst. cbn. apply IH, Hr.
  Qed.
  Lemma heads_nil_concat chs : heads chs = [] -> concat chs = [].
  Proof.
    intros H. apply heads_nil in H. induction H as [|c chs Hc _ IH]; [reflexivity|]. subst c. cbn. exact IH.
  Qed.
  Lemma maxlen_0_heads chs : maxlen chs = 0 -> heads chs = [].
  Proof.
    intros H. apply heads_nil. induction chs as [|c chs IH]; [constructor|]. unfold maxlen in H. cbn [map fold_right] in H.
    fold (maxlen chs) in H. constructor; [destruct c; [reflexivity|cbn [length] in H; lia]|apply IH; lia].
  Qed.
  Lemma maxlen_tails chs : maxlen (tails chs) = maxlen chs - 1.
  Proof.
    induction chs as [|c chs IH]; [reflexivity|]. unfold maxlen, tails in *. cbn [map fold_right]. rewrite IH.
    destruct c as [|x t]; cbn [tl length]; lia.
  Qed.

  Lemma revisions_fixed_terminates_gen : forall m chs, maxlen chs <= m -> exists r, revisions_fuel true (S m) chs = Some r.
  Proof.
    induction m as [|m IH]; intros chs Hm; rewrite revisions_fuel_S; cbn [rev_next]; unfold rev_next_fixed.
    - rewrite (maxlen_0_heads chs) by lia. exists []. reflexivity.
    - destruct (heads chs) as [|h hs] eqn:E; [exists []; reflexivity|].
      destruct (IH (tails chs)) as [r Hr]; [rewrite maxlen_tails; lia|]. rewrite Hr. eexists. reflexivity.
  Qed.
  (* the repaired iterator ends after at most (longest chain + 1) calls of next() *)
  Theorem revisions_fixed_terminates : forall chs, exists r, revisions_fuel true (S (maxlen chs)) chs = Some r.
  Proof. intros chs. apply revisions_fixed_terminates_gen. apply le_n. Qed.

  Lemma concat_heads_tails chs : Permutation (concat chs) (heads chs ++ concat (tails chs)).
  Proof.
    induction chs as [|c chs IH]; [constructor|]. cbn [concat heads flat_map tails map]. fold (heads chs). fold (tails chs).
    destruct c as [|x t]; cbn [tl app]; [exact IH|]. apply perm_skip.
    eapply Permutation_trans; [apply Permutation_app_head, IH|]. apply Permutation_app_swap_app.
  Qed.
  (* every secret at every position of every chain is visited exactly once *)
  Theorem revisions_fixed_complete : forall fuel chs r, revisions_fuel true fuel chs = Some r -> Permutation (concat r) (concat chs).
  Proof.
    induction fuel as [|fu IH]; intros chs r H; [discriminate|]. rewrite revisions_fuel_S in H. cbn [rev_next] in H. unfold rev_next_fixed in H.
    destruct (heads chs) as [|h hs] eqn:E.
    - injection H as <-. rewrite (heads_nil_concat chs E). constructor.
    - destruct (revisions_fuel true fu (tails chs)) as [r'|] eqn:Er; [|discriminate]. injection H as <-.
      cbn [concat]. apply Permutation_sym. eapply Permutation_trans; [apply concat_heads_tails|]. rewrite E.
      apply Permutation_app_head, Permutation_sym, IH, Er.
  Qed.
  (* and each revision is non-empty: no step is wasted *)
  Lemma revisions_fixed_nonempty : forall fuel chs r, revisions_fuel true fuel chs = Some r -> Forall (fun rv => rv <> []) r.
  Proof.
    induction fuel as [|fu IH]; intros chs r H; [discriminate|]. rewrite revisions_fuel_S in H. cbn [rev_next] in H. unfold rev_next_fixed in H.
    destruct (heads chs) as [|h hs] eqn:E; [injection H as <-; constructor|].
    destruct (revisions_fuel true fu (tails chs)) as [r'|] eqn:Er; [|discriminate]. injection H as <-.
    constructor; [discriminate|]. eapply IH, Er.
  Qed.

  (* pinned, zero chains (a key with no right, or whose chains were all empty): next() is Some([]) for ever *)
  Theorem revisions_pinned_hangs : forall fuel, revisions_fuel false fuel [] = None.
  Proof. induction fuel as [|fu IH]; [reflexivity|]. rewrite revisions_fuel_S. cbn [rev_next rev_next_pinned]. rewrite IH. reflexivity. Qed.
End RevIter.
Print Assumptions revisions_fixed_terminates.
Print Assumptions revisions_fixed_complete.
Print Assumptions revisions_pinned_hangs.

(* pinned, chains of lengths 2 and 1: the second secret of the first chain is never visited *)
Theorem revisions_pinned_incomplete : exists (chs : list (list nat)) x,
  In x (concat chs) /\ forall fuel r, revisions_fuel false fuel chs = Some r -> ~ In x (concat r).
Proof.
  exists [[1; 2]; [3]], 2. split; [cbn; tauto|]. intros fuel r H.
  destruct fuel as [|[|fuel]]; [discriminate|discriminate|]. cbn in H. injection H as <-. cbn. lia.
Qed.
Print Assumptions revisions_pinned_incomplete.

(* non-vacuity *)
Example revisions_fixed_ex : revisions_fuel true (S (maxlen [[1; 2]; [3]])) [[1; 2]; [3]] = Some [[1; 3]; [2]].
Proof. reflexivity. Qed.
Example revisions_pinned_ex : revisions_fuel false 5 [[1; 2]; [3]] = Some [[1; 3]] /\ revisions_fuel false 5 [[1; 2]; [3; 4]] = Some [[1; 3]; [2; 4]].
Proof. split; reflexivity. Qed.
Example revisions_fixed_empty_key : revisions_fuel true 1 (@nil (list nat)) = Some [] /\ revisions_fuel false 1000 (@nil (list nat)) = None.
Proof. split; vm_compute; reflexivity. Qed.
(* on chains of equal length (a freshly generated key) both variants agree *)
Example revisions_agree_ex : revisions_fuel true 5 [[1; 2]; [3; 4]] = revisions_fuel false 5 [[1; 2]; [3; 4]].
Proof. reflexivity. Qed.

(* tracing_level = (number of tracers | markers | traps) - 1.  pinned: `len() - 1` is a usize underflow on an empty
   list (panic "attempt to subtract with overflow" in a checked build; usize::MAX in an unchecked one).
   fixed: `len().saturating_sub(1)`. *)
Inductive tl_out := TLOk (n : N) | TLPanic.
Definition tracing_level (fixed : bool) (len : N) : tl_out :=
  if fixed then TLOk (len - 1)%N                       (* N.sub saturates at 0 *)
  else if (len =? 0)%N then TLPanic else TLOk (len - 1)%N.
Theorem tracing_level_fixed_total : forall len, exists n, tracing_level true len = TLOk n /\ (n <= len)%N.
Proof. intros len. exists (len - 1)%N. split; [reflexivity|lia]. Qed.
Theorem tracing_level_pinned_refuted : exists len, tracing_level false len = TLPanic.
Proof. exists 0%N. reflexivity. Qed.
Lemma tracing_level_agree : forall len, (0 < len)%N -> tracing_level false len = tracing_level true len.
Proof. intros len H. unfold tracing_level. destruct (len =? 0)%N eqn:E; [apply N.eqb_eq in E; lia|reflexivity]. Qed.
Example tracing_level_ex : tracing_level true 0 = TLOk 0 /\ tracing_level true 6 = TLOk 5 /\ tracing_level false 6 = TLOk 5.
Proof. repeat split. Qed.
Print Assumptions tracing_level_fixed_total.
Print Assumptions tracing_level_pinned_refuted.
