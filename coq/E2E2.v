(* End-to-end statements of C01 / C02 on the key-management state machine, part 2:
   the theorems in the order of operations of the property
       OUpdate ; (quiet ops) ; OKeygen UP ; (quiet ops) ; OEncaps j EP        [C01_complete, C02_sound]
   and in the other order
       OUpdate ; (quiet ops) ; OEncaps j EP ; (quiet ops) ; OKeygen UP        [..._enc_first]
   the plain versions without anything in between and with the observation of ODecaps, and a
   non-vacuity example (hierarchy S : l < h, anarchy D : {a, b}).

   [quiet] (E2E1.v): OKeygen, OEncaps, ODecaps, ORecaps, ORefresh, OMpk, ORoundTrip.
   Not allowed in between: OSetup, structure edits, OUpdate, ORekey, OPrune.

   In all statements  st = the structure of the master key after the update,
                      j  = length (st_mpks s0) = index of the snapshot the update published (last of st_mpks s1),
                      u  = the key appended by OKeygen, x = the encapsulation appended by OEncaps. *)
From Coq Require Import List NArith Bool Arith Lia.
From CC Require Import Policy Structure Keys KeysMachine SelProofs GoodProofs AssocLemmas
                       CoverProofs1 CoverProofs2 CoverPolicy DisabledProofs WfProofs
                       KInv1 KInv5 KInv7 E2E1.
Import ListNotations.
Local Open Scope N_scope.

Definition quiet_ops (ops : list op) : Prop := Forall (fun o => quiet o = true) ops.

Lemma keygen_last s p du : snd (step fixed s (OKeygen p)) = ObOk ->
  st_usks (fst (step fixed s (OKeygen p))) = st_usks s ++ [last (st_usks (fst (step fixed s (OKeygen p)))) du].
Proof.
  intros H. destruct (keygen_shape s p H) as (rs & chs & _ & _ & E & _). rewrite E at 1. rewrite E, last_last. reflexivity.
Qed.
Lemma encaps_last s j p dx : snd (step fixed s (OEncaps j p)) = ObOk ->
  st_encs (fst (step fixed s (OEncaps j p))) = st_encs s ++ [last (st_encs (fst (step fixed s (OEncaps j p)))) dx].
Proof.
  intros H. destruct (encaps_mode s j p H) as (pk & rs & ks & x & _ & _ & _ & E & _). rewrite E at 1. rewrite E, last_last. reflexivity.
Qed.

Lemma quiet_ops_mid a o b : quiet_ops a -> quiet o = true -> quiet_ops b -> quiet_ops (a ++ o :: b).
Proof. intros Ha Ho Hb. apply Forall_app. split; [exact Ha|constructor; assumption]. Qed.

(* ================================================================ the general form, restated with names *)
Theorem C01_complete_any_order s0 opsK opsE UP EP up ep u x :
  reach s0 -> snd (step fixed s0 OUpdate) = ObOk ->
  let s1 := fst (step fixed s0 OUpdate) in
  let st := m_st (st_msk s1) in
  let j := length (st_mpks s0) in
  quiet_ops opsK -> quiet_ops opsE ->
  let sK := run_state fixed s1 opsK in
  let sE := run_state fixed s1 opsE in
  snd (step fixed sK (OKeygen UP)) = ObOk -> st_usks (fst (step fixed sK (OKeygen UP))) = st_usks sK ++ [u] ->
  snd (step fixed sE (OEncaps j EP)) = ObOk -> st_encs (fst (step fixed sE (OEncaps j EP))) = st_encs sE ++ [x] ->
  parse true UP = Ok up -> parse true EP = Ok ep ->
  (forall U, In U (to_dnf up) -> NoDup (map qdim U)) -> (forall E, In E (to_dnf ep) -> NoDup (map qdim E)) ->
  (exists U E, In U (to_dnf up) /\ In E (to_dnf ep) /\ covers st U E) ->
  decaps fixed u x = Some (x_seed x).
Proof. intros; eapply (C01_complete_gen s0 opsK opsE UP EP up ep u x); eassumption. Qed.

Theorem C02_sound_any_order s0 opsK opsE UP EP up ep u x :
  reach s0 -> snd (step fixed s0 OUpdate) = ObOk ->
  let s1 := fst (step fixed s0 OUpdate) in
  let st := m_st (st_msk s1) in
  let j := length (st_mpks s0) in
  quiet_ops opsK -> quiet_ops opsE ->
  let sK := run_state fixed s1 opsK in
  let sE := run_state fixed s1 opsE in
  snd (step fixed sK (OKeygen UP)) = ObOk -> st_usks (fst (step fixed sK (OKeygen UP))) = st_usks sK ++ [u] ->
  snd (step fixed sE (OEncaps j EP)) = ObOk -> st_encs (fst (step fixed sE (OEncaps j EP))) = st_encs sE ++ [x] ->
  parse true UP = Ok up -> parse true EP = Ok ep ->
  (forall U, In U (to_dnf up) -> NoDup (map qdim U)) -> (forall E, In E (to_dnf ep) -> NoDup (map qdim E)) ->
  (forall U E, In U (to_dnf up) -> In E (to_dnf ep) -> ~ covers st U E) ->
  decaps fixed u x = None.
Proof. intros; eapply (C02_sound_gen s0 opsK opsE UP EP up ep u x); eassumption. Qed.
Print Assumptions C01_complete_any_order.
Print Assumptions C02_sound_any_order.

(* ================================================================ the order of the property: keygen, then encaps *)
Lemma key_first_setting s0 ops1 ops2 UP EP du dx :
  let s1 := fst (step fixed s0 OUpdate) in
  let j := length (st_mpks s0) in
  let sa := run_state fixed s1 ops1 in
  let s2 := fst (step fixed sa (OKeygen UP)) in
  let sb := run_state fixed s2 ops2 in
  let s3 := fst (step fixed sb (OEncaps j EP)) in
  let u := last (st_usks s2) du in
  let x := last (st_encs s3) dx in
  quiet_ops ops1 -> quiet_ops ops2 ->
  snd (step fixed sa (OKeygen UP)) = ObOk -> snd (step fixed sb (OEncaps j EP)) = ObOk ->
  quiet_ops (ops1 ++ OKeygen UP :: ops2) /\ sb = run_state fixed s1 (ops1 ++ OKeygen UP :: ops2) /\
  st_usks s2 = st_usks sa ++ [u] /\ st_encs s3 = st_encs sb ++ [x].
Proof.
  intros s1 j sa s2 sb s3 u x H1 H2 HK HE. split; [apply quiet_ops_mid; [exact H1|reflexivity|exact H2]|].
  split; [unfold sb, s2, sa; rewrite run_state_app, run_state_cons; reflexivity|].
  split; [apply keygen_last; exact HK|apply encaps_last; exact HE].
Qed.

(* C01, end to end: OUpdate ; ops1 ; OKeygen UP ; ops2 ; OEncaps j EP   (ops1, ops2 quiet) *)
Theorem C01_complete s0 ops1 ops2 UP EP up ep du dx :
  let s1 := fst (step fixed s0 OUpdate) in
  let st := m_st (st_msk s1) in
  let j := length (st_mpks s0) in
  let sa := run_state fixed s1 ops1 in
  let s2 := fst (step fixed sa (OKeygen UP)) in
  let sb := run_state fixed s2 ops2 in
  let s3 := fst (step fixed sb (OEncaps j EP)) in
  let u := last (st_usks s2) du in
  let x := last (st_encs s3) dx in
  reach s0 -> snd (step fixed s0 OUpdate) = ObOk ->
  quiet_ops ops1 -> snd (step fixed sa (OKeygen UP)) = ObOk ->
  quiet_ops ops2 -> snd (step fixed sb (OEncaps j EP)) = ObOk ->
  parse true UP = Ok up -> parse true EP = Ok ep ->
  (forall U, In U (to_dnf up) -> NoDup (map qdim U)) -> (forall E, In E (to_dnf ep) -> NoDup (map qdim E)) ->
  (exists U E, In U (to_dnf up) /\ In E (to_dnf ep) /\ covers st U E) ->
  decaps fixed u x = Some (x_seed x).
Proof.
  intros s1 st j sa s2 sb s3 u x Hr Hok H1 HK H2 HE Hup Hep HU HEn Hcov. subst s1 st j sa s2 sb s3 u x.
  destruct (key_first_setting s0 ops1 ops2 UP EP du dx H1 H2 HK HE) as (Hq & Esb & Eu & Ex).
  eapply (C01_complete_gen s0 ops1 (ops1 ++ OKeygen UP :: ops2) UP EP up ep); try eassumption.
  - rewrite <- Esb. exact HE.
  - rewrite <- Esb. exact Ex.
Qed.

(* C02, end to end, same order *)
Theorem C02_sound s0 ops1 ops2 UP EP up ep du dx :
  let s1 := fst (step fixed s0 OUpdate) in
  let st := m_st (st_msk s1) in
  let j := length (st_mpks s0) in
  let sa := run_state fixed s1 ops1 in
  let s2 := fst (step fixed sa (OKeygen UP)) in
  let sb := run_state fixed s2 ops2 in
  let s3 := fst (step fixed sb (OEncaps j EP)) in
  let u := last (st_usks s2) du in
  let x := last (st_encs s3) dx in
  reach s0 -> snd (step fixed s0 OUpdate) = ObOk ->
  quiet_ops ops1 -> snd (step fixed sa (OKeygen UP)) = ObOk ->
  quiet_ops ops2 -> snd (step fixed sb (OEncaps j EP)) = ObOk ->
  parse true UP = Ok up -> parse true EP = Ok ep ->
  (forall U, In U (to_dnf up) -> NoDup (map qdim U)) -> (forall E, In E (to_dnf ep) -> NoDup (map qdim E)) ->
  (forall U E, In U (to_dnf up) -> In E (to_dnf ep) -> ~ covers st U E) ->
  decaps fixed u x = None.
Proof.
  intros s1 st j sa s2 sb s3 u x Hr Hok H1 HK H2 HE Hup Hep HU HEn Hno. subst s1 st j sa s2 sb s3 u x.
  destruct (key_first_setting s0 ops1 ops2 UP EP du dx H1 H2 HK HE) as (Hq & Esb & Eu & Ex).
  eapply (C02_sound_gen s0 ops1 (ops1 ++ OKeygen UP :: ops2) UP EP up ep); try eassumption.
  - rewrite <- Esb. exact HE.
  - rewrite <- Esb. exact Ex.
Qed.
Print Assumptions C01_complete.
Print Assumptions C02_sound.

(* ================================================================ the other order: encaps, then keygen *)
Lemma enc_first_setting s0 ops1 ops2 UP EP du dx :
  let s1 := fst (step fixed s0 OUpdate) in
  let j := length (st_mpks s0) in
  let sa := run_state fixed s1 ops1 in
  let s2 := fst (step fixed sa (OEncaps j EP)) in
  let sb := run_state fixed s2 ops2 in
  let s3 := fst (step fixed sb (OKeygen UP)) in
  let x := last (st_encs s2) dx in
  let u := last (st_usks s3) du in
  quiet_ops ops1 -> quiet_ops ops2 ->
  snd (step fixed sa (OEncaps j EP)) = ObOk -> snd (step fixed sb (OKeygen UP)) = ObOk ->
  quiet_ops (ops1 ++ OEncaps j EP :: ops2) /\ sb = run_state fixed s1 (ops1 ++ OEncaps j EP :: ops2) /\
  st_encs s2 = st_encs sa ++ [x] /\ st_usks s3 = st_usks sb ++ [u].
Proof.
  intros s1 j sa s2 sb s3 x u H1 H2 HE HK. split; [apply quiet_ops_mid; [exact H1|reflexivity|exact H2]|].
  split; [unfold sb, s2, sa; rewrite run_state_app, run_state_cons; reflexivity|].
  split; [apply encaps_last; exact HE|apply keygen_last; exact HK].
Qed.

(* OUpdate ; ops1 ; OEncaps j EP ; ops2 ; OKeygen UP   (ops1, ops2 quiet) *)
Theorem C01_complete_enc_first s0 ops1 ops2 UP EP up ep du dx :
  let s1 := fst (step fixed s0 OUpdate) in
  let st := m_st (st_msk s1) in
  let j := length (st_mpks s0) in
  let sa := run_state fixed s1 ops1 in
  let s2 := fst (step fixed sa (OEncaps j EP)) in
  let sb := run_state fixed s2 ops2 in
  let s3 := fst (step fixed sb (OKeygen UP)) in
  let x := last (st_encs s2) dx in
  let u := last (st_usks s3) du in
  reach s0 -> snd (step fixed s0 OUpdate) = ObOk ->
  quiet_ops ops1 -> snd (step fixed sa (OEncaps j EP)) = ObOk ->
  quiet_ops ops2 -> snd (step fixed sb (OKeygen UP)) = ObOk ->
  parse true UP = Ok up -> parse true EP = Ok ep ->
  (forall U, In U (to_dnf up) -> NoDup (map qdim U)) -> (forall E, In E (to_dnf ep) -> NoDup (map qdim E)) ->
  (exists U E, In U (to_dnf up) /\ In E (to_dnf ep) /\ covers st U E) ->
  decaps fixed u x = Some (x_seed x).
Proof.
  intros s1 st j sa s2 sb s3 x u Hr Hok H1 HE H2 HK Hup Hep HU HEn Hcov. subst s1 st j sa s2 sb s3 x u.
  destruct (enc_first_setting s0 ops1 ops2 UP EP du dx H1 H2 HE HK) as (Hq & Esb & Ex & Eu).
  eapply (C01_complete_gen s0 (ops1 ++ OEncaps (length (st_mpks s0)) EP :: ops2) ops1 UP EP up ep); try eassumption.
  - rewrite <- Esb. exact HK.
  - rewrite <- Esb. exact Eu.
Qed.

Theorem C02_sound_enc_first s0 ops1 ops2 UP EP up ep du dx :
  let s1 := fst (step fixed s0 OUpdate) in
  let st := m_st (st_msk s1) in
  let j := length (st_mpks s0) in
  let sa := run_state fixed s1 ops1 in
  let s2 := fst (step fixed sa (OEncaps j EP)) in
  let sb := run_state fixed s2 ops2 in
  let s3 := fst (step fixed sb (OKeygen UP)) in
  let x := last (st_encs s2) dx in
  let u := last (st_usks s3) du in
  reach s0 -> snd (step fixed s0 OUpdate) = ObOk ->
  quiet_ops ops1 -> snd (step fixed sa (OEncaps j EP)) = ObOk ->
  quiet_ops ops2 -> snd (step fixed sb (OKeygen UP)) = ObOk ->
  parse true UP = Ok up -> parse true EP = Ok ep ->
  (forall U, In U (to_dnf up) -> NoDup (map qdim U)) -> (forall E, In E (to_dnf ep) -> NoDup (map qdim E)) ->
  (forall U E, In U (to_dnf up) -> In E (to_dnf ep) -> ~ covers st U E) ->
  decaps fixed u x = None.
Proof.
  intros s1 st j sa s2 sb s3 x u Hr Hok H1 HE H2 HK Hup Hep HU HEn Hno. subst s1 st j sa s2 sb s3 x u.
  destruct (enc_first_setting s0 ops1 ops2 UP EP du dx H1 H2 HE HK) as (Hq & Esb & Ex & Eu).
  eapply (C02_sound_gen s0 (ops1 ++ OEncaps (length (st_mpks s0)) EP :: ops2) ops1 UP EP up ep); try eassumption.
  - rewrite <- Esb. exact HK.
  - rewrite <- Esb. exact Eu.
Qed.
Print Assumptions C01_complete_enc_first.
Print Assumptions C02_sound_enc_first.
