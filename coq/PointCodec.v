(* Decoding of group elements inside serialized objects (src/core/nike/p256.rs, P256Point::read; F13).

   Everywhere else the model treats a serialized point as an opaque fixed-width blob: "the parsed object determines the
   bytes" (WireRoundTrip*.v) is then immediate for that field.  The real reader goes one step further, from the blob to a
   group element, through a library parser (`dec`), and writes elements back with an encoder (`enc`).  The byte-level
   half of C07 ("changing any byte of the serialized form ...") needs that step to be injective on what is accepted.
   The pinned reader accepts whatever the parser decodes; the SEC1 parser of the p-256 build also decodes the COMPACT
   form (tag 0x05) of a point, so two byte strings give one element and a serialized encapsulation is malleable although
   the parsed object - and hence everything CryptoKem.v says - is unchanged.  The repaired reader re-encodes and compares.

   fx = true : repaired (canonical encodings only);  fx = false : pinned. *)
From Coq Require Import List NArith Bool.
Import ListNotations.

Definition blob := list N.

Section Codec.
  Variable P : Type.
  Variable dec : blob -> option P.     (* library parser *)
  Variable enc : P -> blob.            (* encoder used by `write` *)

  Definition blob_eq_dec : forall a b : blob, {a = b} + {a <> b} := list_eq_dec N.eq_dec.

  Definition read_point (fx : bool) (b : blob) : option P :=
    match dec b with
    | None => None
    | Some p => if fx then (if blob_eq_dec (enc p) b then Some p else None) else Some p
    end.

  (* a field list: every blob must decode (XEnc traps, tracing points of keys) *)
  Fixpoint read_points (fx : bool) (bs : list blob) : option (list P) :=
    match bs with
    | [] => Some []
    | b :: t => match read_point fx b, read_points fx t with
                | Some p, Some ps => Some (p :: ps)
                | _, _ => None
                end
    end.

  Lemma read_point_fixed_canonical : forall b p, read_point true b = Some p -> b = enc p.
  Proof.
    intros b p. unfold read_point. destruct (dec b) as [q|]; [|discriminate].
    destruct (blob_eq_dec (enc q) b) as [E|E]; [|discriminate].
    intros H. injection H as <-. symmetry. exact E.
  Qed.

  Theorem read_point_fixed_injective :
    forall b b' p, read_point true b = Some p -> read_point true b' = Some p -> b = b'.
  Proof.
    intros b b' p H H'. rewrite (read_point_fixed_canonical _ _ H), (read_point_fixed_canonical _ _ H'). reflexivity.
  Qed.

  Theorem read_points_fixed_injective :
    forall bs bs' ps, read_points true bs = Some ps -> read_points true bs' = Some ps -> bs = bs'.
  Proof.
    induction bs as [|b t IH]; intros bs' ps H H'.
    - cbn in H. injection H as <-. destruct bs' as [|b' t']; [reflexivity|].
      cbn in H'. destruct (read_point true b'); [destruct (read_points true t')|]; discriminate.
    - cbn in H. destruct (read_point true b) as [p|] eqn:Hb; [|discriminate].
      destruct (read_points true t) as [qs|] eqn:Ht; [|discriminate]. injection H as <-.
      destruct bs' as [|b' t']; [cbn in H'; discriminate|].
      cbn in H'. destruct (read_point true b') as [p'|] eqn:Hb'; [|discriminate].
      destruct (read_points true t') as [qs'|] eqn:Ht'; [|discriminate].
      injection H' as E1 E2. subst p' qs'.
      f_equal; [exact (read_point_fixed_injective _ _ _ Hb Hb') | exact (IH _ _ eq_refl Ht')].
  Qed.

  (* the repaired reader still accepts everything `write` produces, provided the parser does *)
  Theorem read_point_fixed_accepts_written :
    forall p, dec (enc p) = Some p -> read_point true (enc p) = Some p.
  Proof.
    intros p H. unfold read_point. rewrite H. destruct (blob_eq_dec (enc p) (enc p)) as [_|N]; [reflexivity|].
    exfalso. apply N. reflexivity.
  Qed.

  (* ... and never accepts more than the pinned one, with the same result *)
  Theorem read_point_fixed_refines_pinned :
    forall b p, read_point true b = Some p -> read_point false b = Some p.
  Proof.
    intros b p. unfold read_point. destruct (dec b) as [q|]; [|discriminate].
    destruct (blob_eq_dec (enc q) b); [intros H; exact H|discriminate].
  Qed.

  (* Byte-level uniqueness of a serialized object whose only non-opaque fields are points:
     `split` cuts the bytes into the opaque part and the point blobs, `join` is the writer; the wire layer gives
     join (split b) = b on accepted inputs (WireRoundTrip*.v).  Two byte strings accepted as the same object are equal. *)
  Variable O : Type.                                   (* the opaque remainder (tag, counts, fixed-width fields) *)
  Variable split : blob -> option (O * list blob).
  Variable join : O -> list blob -> blob.
  Hypothesis join_split : forall b o bs, split b = Some (o, bs) -> join o bs = b.

  Definition read_object (fx : bool) (b : blob) : option (O * list P) :=
    match split b with
    | None => None
    | Some (o, bs) => match read_points fx bs with Some ps => Some (o, ps) | None => None end
    end.

  Theorem serialized_form_unique :
    forall b b' x, read_object true b = Some x -> read_object true b' = Some x -> b = b'.
  Proof.
    intros b b' [o ps]. unfold read_object.
    destruct (split b) as [[o1 bs]|] eqn:S1; [|discriminate].
    destruct (read_points true bs) as [qs|] eqn:R1; [|discriminate]. intros H. injection H as E1 E2. subst o1 qs.
    destruct (split b') as [[o2 bs']|] eqn:S2; [|discriminate].
    destruct (read_points true bs') as [qs'|] eqn:R2; [|discriminate]. intros H. injection H as E1 E2. subst o2 qs'.
    rewrite <- (join_split _ _ _ S1), <- (join_split _ _ _ S2).
    f_equal. exact (read_points_fixed_injective _ _ _ R1 R2).
  Qed.
End Codec.

(* A concrete parser with a second encoding of the same element (toy SEC1: tag 2 / 3 = compressed with the sign bit,
   tag 5 = compact, decoded to the even representative). *)
Definition toy_dec (b : blob) : option (N * bool) :=
  match b with
  | [2; x] => Some (x, false)
  | [3; x] => Some (x, true)
  | [5; x] => Some (x, false)
  | _ => None
  end%N.
Definition toy_enc (p : N * bool) : blob := [if snd p then 3 else 2; fst p]%N.

Lemma toy_dec_enc : forall p, toy_dec (toy_enc p) = Some p.
Proof. intros [x [|]]; reflexivity. Qed.

Theorem pinned_read_point_refuted :
  exists b b' p, b <> b' /\ read_point _ toy_dec toy_enc false b = Some p /\ read_point _ toy_dec toy_enc false b' = Some p.
Proof. exists [2; 7]%N, [5; 7]%N, (7%N, false). split; [discriminate|split; reflexivity]. Qed.

(* the repaired reader on the same parser: the compact form is refused, the written form accepted *)
Example fixed_refuses_compact : read_point _ toy_dec toy_enc true [5; 7]%N = None.
Proof. vm_compute. reflexivity. Qed.
Example fixed_accepts_written : read_point _ toy_dec toy_enc true (toy_enc (7%N, true)) = Some (7%N, true).
Proof. vm_compute. reflexivity. Qed.
