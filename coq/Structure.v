(* Prototype (round 0, scratch): model of dimension.rs, access_structure.rs, rights.rs *)
From Coq Require Import List NArith Bool Arith Lia.
Require Import Policy.
Import ListNotations.

Record attribute := { a_id : N; a_hyb : bool; a_enc : bool }.
Inductive dimension := Anarchy (l : list (str * attribute)) | Hierarchy (l : list (str * attribute)).
Record structure := { dims : list (str * dimension); next_id : N }.

Definition empty_structure := {| dims := []; next_id := 0%N |}.

Fixpoint alookup {A} (k : str) (l : list (str * A)) : option A :=
  match l with [] => None | (k', v) :: t => if str_eqb k k' then Some v else alookup k t end.
Fixpoint aremove {A} (k : str) (l : list (str * A)) : list (str * A) :=
  match l with [] => [] | (k', v) :: t => if str_eqb k k' then t else (k', v) :: aremove k t end.
Fixpoint areplace {A} (k : str) (v : A) (l : list (str * A)) : list (str * A) :=
  match l with [] => [] | (k', v') :: t => if str_eqb k k' then (k, v) :: t else (k', v') :: areplace k v t end.
Definition ainsert {A} (k : str) (v : A) (l : list (str * A)) : list (str * A) :=
  match alookup k l with Some _ => areplace k v l | None => l ++ [(k, v)] end.
Definition amem {A} (k : str) (l : list (str * A)) : bool := match alookup k l with Some _ => true | None => false end.
Fixpoint arename {A} (k k' : str) (l : list (str * A)) : list (str * A) :=
  match l with [] => [] | (k0, v) :: t => if str_eqb k k0 then (k', v) :: t else (k0, v) :: arename k k' t end.

Definition attrs_of (d : dimension) : list (str * attribute) := match d with Anarchy l => l | Hierarchy l => l end.
Definition nb_attributes (st : structure) : N :=
  N.of_nat (fold_left (fun acc d => acc + length (attrs_of (snd d)))%nat (dims st) 0%nat).

Definition add_dim (mk : list (str * attribute) -> dimension) (d : str) (st : structure) : outcome structure :=
  if amem d (dims st) then Err else Ok {| dims := dims st ++ [(d, mk [])]; next_id := next_id st |}.
Definition add_anarchy := add_dim Anarchy.
Definition add_hierarchy := add_dim Hierarchy.
Definition del_dimension (d : str) (st : structure) : outcome structure :=
  if amem d (dims st) then Ok {| dims := aremove d (dims st); next_id := next_id st |} else Err.

Fixpoint take_while {A} (f : A -> bool) (l : list A) : list A :=
  match l with [] => [] | x :: t => if f x then x :: take_while f t else [] end.

Definition dim_add_attribute (dm : dimension) (n : str) (hyb : bool) (after : option str) (id : N) : outcome dimension :=
  let new := {| a_id := id; a_hyb := hyb; a_enc := true |} in
  match dm with
  | Anarchy l => if amem n l then Err else Ok (Anarchy (l ++ [(n, new)]))
  | Hierarchy l =>
      if amem n l then Err else
      let bad_after := match after with Some a => negb (amem a l) | None => false end in
      if bad_after then Err else
      let after_s := match after with Some a => a | None => [] end in
      let higher := take_while (fun p => negb (str_eqb (fst p) after_s)) (rev l) in
      let stop := last (map (fun p => Some (fst p)) higher) None in
      let lower := take_while (fun p => match stop with Some s => negb (str_eqb (fst p) s) | None => true end) l in
      Ok (Hierarchy (fold_left (fun acc p => ainsert (fst p) (snd p) acc) (rev higher) (ainsert n new lower)))
  end.

Section Alloc.
  Variable fixed : bool.  (* false: pinned id = number of live attributes; true: monotone counter *)

  Definition add_attribute (d n : str) (hyb : bool) (after : option str) (st : structure) : outcome structure :=
    let id := if fixed then next_id st else nb_attributes st in
    match alookup d (dims st) with
    | None => Err
    | Some dm => match dim_add_attribute dm n hyb after id with
                 | Ok dm' => Ok {| dims := areplace d dm' (dims st); next_id := N.succ (next_id st) |}
                 | Err => Err | Panic => Panic | Hang => Hang
                 end
    end.
End Alloc.

Definition map_dim (f : list (str * attribute) -> option (list (str * attribute))) (dm : dimension) : option dimension :=
  match dm with
  | Anarchy l => option_map Anarchy (f l)
  | Hierarchy l => option_map Hierarchy (f l)
  end.
Definition edit_dim (d : str) (f : dimension -> option dimension) (st : structure) : outcome structure :=
  match alookup d (dims st) with
  | None => Err
  | Some dm => match f dm with
               | Some dm' => Ok {| dims := areplace d dm' (dims st); next_id := next_id st |}
               | None => Err
               end
  end.
Definition del_attribute (d n : str) := edit_dim d (map_dim (fun l => if amem n l then Some (aremove n l) else None)).
Definition disable_attribute (d n : str) :=
  edit_dim d (map_dim (fun l => match alookup n l with
                                | Some a => Some (areplace n {| a_id := a_id a; a_hyb := a_hyb a; a_enc := false |} l)
                                | None => None end)).
Definition rename_attribute (d n n' : str) :=
  edit_dim d (fun dm => match dm with
     | Anarchy l => if amem n' l then None else
                    match alookup n l with Some a => Some (Anarchy (aremove n l ++ [(n', a)])) | None => None end
     | Hierarchy l => if amem n l then (if amem n' l then None else Some (Hierarchy (arename n n' l))) else None
     end).

(* ---- rights ---- *)
Fixpoint leb128_fuel (fuel : nat) (n : N) : list N :=
  match fuel with
  | O => [n]
  | S f => if (n <? 128)%N then [n] else ((n mod 128) + 128)%N :: leb128_fuel f (n / 128)%N
  end.
Definition leb128 (n : N) : list N := leb128_fuel 10 n.

Fixpoint insert_sorted (x : N) (l : list N) : list N :=
  match l with [] => [x] | y :: t => if (x <=? y)%N then x :: l else y :: insert_sorted x t end.
Definition sort_ids (l : list N) : list N := fold_right insert_sorted [] l.
Definition right := list N.                    (* sorted ids *)
Definition right_of_point (p : list N) : right := sort_ids p.
Definition right_bytes (r : right) : list N := flat_map leb128 r.

Fixpoint combine (ds : list dimension) : list (list N * bool * bool) :=
  match ds with
  | [] => [([], false, true)]
  | d :: rest =>
      let pc := combine rest in
      pc ++ flat_map (fun na => map (fun '(ids, h, e) => (a_id (snd na) :: ids, h || a_hyb (snd na), e && a_enc (snd na))) pc)
                     (attrs_of d)
  end.

Definition omega (st : structure) : list (right * (bool * bool)) :=
  map (fun '(ids, h, e) => (right_of_point ids, (h, e))) (combine (map snd (dims st))).

Definition restrict (dm : dimension) (n : str) : outcome dimension :=
  match alookup n (attrs_of dm) with
  | None => Err
  | Some a =>
      match dm with
      | Hierarchy l => Ok (Hierarchy (ainsert n a (take_while (fun p => negb (str_eqb (fst p) n)) l)))
      | Anarchy _ => Ok (Anarchy [(n, a)])
      end
  end.

Fixpoint semantic_space (st : structure) (clause : list qattr) (acc : list (str * dimension)) : outcome (list (str * dimension)) :=
  match clause with
  | [] => Ok acc
  | qa :: t =>
      match alookup (qdim qa) (dims st) with
      | None => Err
      | Some dm => match restrict dm (qname qa) with
                   | Ok dm' => semantic_space st t (ainsert (qdim qa) dm' acc)
                   | Err => Err | Panic => Panic | Hang => Hang
                   end
      end
  end.

Definition complementary_points (st : structure) (clause : list qattr) : outcome (list (list N)) :=
  match semantic_space st clause [] with
  | Ok sem =>
      let semantic_points := map (fun '(ids, _, _) => ids) (combine (map snd sem)) in
      let restricted := filter (fun d => negb (amem (fst d) sem)) (dims st) in
      Ok (flat_map (fun '(prefix, _, _) => map (fun suffix => prefix ++ suffix) semantic_points)
                   (combine (map snd restricted)))
  | Err => Err | Panic => Panic | Hang => Hang
  end.

Fixpoint list_N_eqb (a b : list N) : bool :=
  match a, b with [], [] => true | x :: a', y :: b' => (x =? y)%N && list_N_eqb a' b' | _, _ => false end.
Fixpoint dedup (l : list (list N)) : list (list N) :=
  match l with [] => [] | x :: t => if existsb (list_N_eqb x) t then dedup t else x :: dedup t end.

Fixpoint collect_clauses (st : structure) (dnf : list (list qattr)) : outcome (list (list N)) :=
  match dnf with
  | [] => Ok []
  | c :: t => match complementary_points st c with
              | Ok ps => match collect_clauses st t with Ok r => Ok (ps ++ r) | o => o end
              | Err => Err | Panic => Panic | Hang => Hang
              end
  end.
Definition complementary_rights (st : structure) (p : policy) : outcome (list right) :=
  match collect_clauses st (to_dnf p) with
  | Ok ps => Ok (dedup (map right_of_point ps))
  | Err => Err | Panic => Panic | Hang => Hang
  end.

Definition get_attribute (st : structure) (qa : qattr) : option attribute :=
  match alookup (qdim qa) (dims st) with Some dm => alookup (qname qa) (attrs_of dm) | None => None end.
Fixpoint ids_of_clause (st : structure) (c : list qattr) : outcome (list N) :=
  match c with
  | [] => Ok []
  | qa :: t => match get_attribute st qa with
               | Some a => match ids_of_clause st t with Ok r => Ok (a_id a :: r) | o => o end
               | None => Err
               end
  end.
Fixpoint assoc_clauses (st : structure) (dnf : list (list qattr)) : outcome (list right) :=
  match dnf with
  | [] => Ok []
  | c :: t => match ids_of_clause st c with
              | Ok ids => match assoc_clauses st t with Ok r => Ok (right_of_point ids :: r) | o => o end
              | Err => Err | Panic => Panic | Hang => Hang
              end
  end.
Definition associated_rights (st : structure) (p : policy) : outcome (list right) :=
  match assoc_clauses st (to_dnf p) with Ok rs => Ok (dedup rs) | o => o end.
