(* C13, part 1: generic reader/writer lemmas, then attribute, dimension, access structure, right keys, user id *)
From Coq Require Import List NArith Bool Arith Lia.
Require Import Policy Structure Leb Wire WireSer.
Import ListNotations.
Local Open Scope nat_scope.

(* ---------- generic lemmas ---------- *)
Lemma r_leb_w n rest : u64 n -> r_leb (w_leb n ++ rest) = ROk n rest.
Proof. intros H. unfold r_leb, w_leb. rewrite leb_roundtrip by exact H. reflexivity. Qed.

Lemma r_take_app a rest : r_take (length a) (a ++ rest) = ROk a rest.
Proof.
  induction a as [|b a IH]; [reflexivity|].
  cbn [length app r_take]. rewrite IH. reflexivity.
Qed.
Lemma r_take_w n a rest : length a = n -> r_take n (a ++ rest) = ROk a rest.
Proof. intros <-. apply r_take_app. Qed.

Lemma r_vec_w b rest : u64 (nlen b) -> r_vec (w_vec b ++ rest) = ROk b rest.
Proof.
  intros H. unfold r_vec, w_vec. rewrite <- app_assoc. rewrite r_leb_w by exact H. cbn [bind].
  assert (E : (N.of_nat (length (b ++ rest)) <? nlen b)%N = false).
  { apply N.ltb_ge. unfold nlen. rewrite app_length. lia. }
  rewrite E. unfold nlen. rewrite Nnat.Nat2N.id. apply r_take_app.
Qed.

Lemma r_flag_w b rest : r_flag (w_flag b ++ rest) = ROk b rest.
Proof.
  unfold r_flag, w_flag. destruct b.
  - rewrite r_leb_w by (unfold u64; lia). reflexivity.
  - rewrite r_leb_w by (unfold u64; lia). reflexivity.
Qed.

Lemma leb128_fuel_nonempty f n : 1 <= length (leb128_fuel f n).
Proof. destruct f as [|f]; cbn [leb128_fuel]; [cbn; lia|]. destruct (n <? 128)%N; cbn [length]; lia. Qed.
Lemma w_leb_nonempty n : 1 <= length (w_leb n).
Proof. apply leb128_fuel_nonempty. Qed.
Lemma w_vec_nonempty b : 1 <= length (w_vec b).
Proof. unfold w_vec. rewrite app_length. pose proof (w_leb_nonempty (nlen b)). lia. Qed.
Lemma w_flag_nonempty b : 1 <= length (w_flag b).
Proof. apply w_leb_nonempty. Qed.
Lemma w_list_nonempty {A} (g : A -> bytes) l : 1 <= length (w_list g l).
Proof. unfold w_list. rewrite app_length. pose proof (w_leb_nonempty (nlen l)). lia. Qed.

(* the counted loop: enough fuel as soon as fuel >= number of elements *)
Lemma r_n_w {A} (f : bytes -> res A) (g : A -> bytes) : forall l fuel rest acc,
  Forall (fun x => forall rest', f (g x ++ rest') = ROk x rest') l ->
  length l <= fuel ->
  r_n f fuel (nlen l) (flat_map g l ++ rest) acc = ROk (rev acc ++ l) rest.
Proof.
  induction l as [|x l IH]; intros fuel rest acc Hf Hfu.
  - destruct fuel; cbn [r_n nlen length flat_map app]; rewrite app_nil_r; reflexivity.
  - destruct fuel as [|fu]; [cbn [length] in Hfu; lia|].
    inversion Hf as [|x' l' Hx Hl]; subst.
    cbn [r_n flat_map].
    assert (E0 : (nlen (x :: l) =? 0)%N = false) by (apply N.eqb_neq; unfold nlen; cbn [length]; lia).
    rewrite E0. rewrite <- app_assoc. rewrite Hx. cbn [bind].
    replace (nlen (x :: l) - 1)%N with (nlen l) by (unfold nlen; cbn [length]; lia).
    rewrite IH; [|exact Hl|cbn [length] in Hfu; lia].
    cbn [rev]. rewrite <- app_assoc. reflexivity.
Qed.

Lemma flat_map_length_ge {A} (g : A -> bytes) l : Forall (fun x => 1 <= length (g x)) l -> length l <= length (flat_map g l).
Proof.
  induction 1 as [|x l Hx Hl IH]; [cbn; lia|]. cbn [flat_map length]. rewrite app_length. lia.
Qed.

Theorem r_list_w {A} (f : bytes -> res A) (g : A -> bytes) l rest :
  u64 (nlen l) ->
  Forall (fun x => forall rest', f (g x ++ rest') = ROk x rest') l ->
  Forall (fun x => 1 <= length (g x)) l ->
  r_list f (w_list g l ++ rest) = ROk l rest.
Proof.
  intros Hn Hf Hg. unfold r_list, w_list. rewrite <- app_assoc. rewrite r_leb_w by exact Hn. cbn [bind].
  rewrite (r_n_w f g l _ rest []); [reflexivity|exact Hf|].
  rewrite app_length. pose proof (flat_map_length_ge g l Hg). lia.
Qed.

(* a list of fixed-length blobs *)
Lemma r_list_blobs n l rest : 1 <= n -> u64 (nlen l) -> Forall (blob n) l ->
  r_list (r_take n) (w_list (fun p => p) l ++ rest) = ROk l rest.
Proof.
  intros Hn Hl Hb. apply r_list_w; [exact Hl| |].
  - eapply Forall_impl; [|exact Hb]. intros a [Ha _] rest'. apply r_take_w. exact Ha.
  - eapply Forall_impl; [|exact Hb]. intros a [Ha _]. lia.
Qed.

(* ---------- attribute ---------- *)
Theorem rt_attr a rest : wf_attr a -> r_attr (wr_attr a ++ rest) = ROk a rest.
Proof.
  intros H. destruct a as [id h e]. unfold wf_attr in H. cbn [wa_id] in H.
  unfold r_attr, wr_attr. cbn [wa_id wa_hyb wa_enc]. repeat rewrite <- app_assoc.
  rewrite r_leb_w by exact H. cbn [bind]. rewrite r_flag_w. cbn [bind]. rewrite r_flag_w. reflexivity.
Qed.
Lemma wr_attr_nonempty a : 1 <= length (wr_attr a).
Proof. unfold wr_attr. rewrite app_length. pose proof (w_leb_nonempty (wa_id a)). lia. Qed.

Lemma rt_named_attr na rest : wf_named_attr na -> r_named_attr (wr_named_attr na ++ rest) = ROk na rest.
Proof.
  intros [[Hv _] Ha]. destruct na as [name a]. cbn [fst snd] in *.
  unfold r_named_attr, wr_named_attr. cbn [fst snd]. rewrite <- app_assoc.
  rewrite r_vec_w by exact Hv. cbn [bind]. rewrite rt_attr by exact Ha. reflexivity.
Qed.

(* ---------- dimension ---------- *)
Theorem rt_dim d rest : wf_dim d -> r_dim (wr_dim d ++ rest) = ROk d rest.
Proof.
  intros [Hn Hl]. destruct d as [ord l]. cbn [fst snd] in *.
  unfold r_dim, wr_dim. cbn [fst snd]. rewrite <- app_assoc. rewrite r_flag_w. cbn [bind].
  rewrite r_list_w; [reflexivity|exact Hn| |].
  - eapply Forall_impl; [|exact Hl]. intros na Hna rest'. apply rt_named_attr. exact Hna.
  - apply Forall_forall. intros na _. unfold wr_named_attr. rewrite app_length. pose proof (w_vec_nonempty (fst na)). lia.
Qed.

Lemma rt_named_dim nd rest : wf_named_dim nd ->
  (do (name, q1) <- r_vec (wr_named_dim nd ++ rest); do (d, q2) <- r_dim q1; ROk (name, d) q2) = ROk nd rest.
Proof.
  intros [[Hv _] Hd]. destruct nd as [name d]. cbn [fst snd] in *.
  unfold wr_named_dim. cbn [fst snd]. rewrite <- app_assoc.
  rewrite r_vec_w by exact Hv. cbn [bind]. rewrite rt_dim by exact Hd. reflexivity.
Qed.

(* ---------- access structure ---------- *)
Theorem rt_structure s rest : wf_structure s -> r_structure (wr_structure s ++ rest) = ROk s rest.
Proof.
  intros (Hv & Hn & Hd). destruct s as [v ds nx]. cbn [ws_version ws_dims ws_next] in *.
  unfold r_structure, wr_structure. cbn [ws_version ws_dims ws_next]. repeat rewrite <- app_assoc.
  assert (Hl : forall rest', r_list (fun b => do (name, q1) <- r_vec b; do (d, q2) <- r_dim q1; ROk (name, d) q2)
                 (w_list wr_named_dim ds ++ rest') = ROk ds rest').
  { intros rest'. apply r_list_w; [exact Hn| |].
    - eapply Forall_impl; [|exact Hd]. intros nd Hnd r'. apply rt_named_dim. exact Hnd.
    - apply Forall_forall. intros nd _. unfold wr_named_dim. rewrite app_length. pose proof (w_vec_nonempty (fst nd)). lia. }
  destruct nx as [nx|].
  - destruct Hv as [-> Hnx]. rewrite r_leb_w by (unfold u64; lia). cbn [bind].
    change (1 <? 1)%N with false. cbv iota. rewrite Hl. cbn [bind].
    change (1 =? 1)%N with true. cbv iota. rewrite r_leb_w by exact Hnx. reflexivity.
  - subst v. rewrite r_leb_w by (unfold u64; lia). cbn [bind].
    change (1 <? 0)%N with false. cbv iota. rewrite Hl. cbn [bind].
    change (0 =? 1)%N with false. cbv iota. rewrite app_nil_l. reflexivity.
Qed.
Lemma wr_structure_nonempty s : 1 <= length (wr_structure s).
Proof. unfold wr_structure. rewrite app_length. pose proof (w_leb_nonempty (ws_version s)). lia. Qed.

(* ---------- right secret / public keys, user id ---------- *)
Section Sized1.
  Variable sz : sizes.

  Theorem rt_rsk k rest : wf_rsk sz k -> r_rsk sz (wr_rsk k ++ rest) = ROk k rest.
  Proof.
    intros [[Hs _] Hd]. destruct k as [h sk dk]. cbn [wk_hyb wk_sk wk_dk] in *.
    unfold r_rsk, wr_rsk. cbn [wk_hyb wk_sk wk_dk]. destruct h.
    - destruct Hd as [Hd _]. repeat rewrite <- app_assoc.
      change (w_leb 1) with (w_flag true). rewrite r_flag_w. cbn [bind].
      rewrite r_take_w by exact Hs. cbn [bind]. rewrite r_take_w by exact Hd. reflexivity.
    - subst dk. repeat rewrite <- app_assoc.
      change (w_leb 0) with (w_flag false). rewrite r_flag_w. cbn [bind].
      rewrite r_take_w by exact Hs. reflexivity.
  Qed.
  Lemma wr_rsk_nonempty k : 1 <= length (wr_rsk k).
  Proof. unfold wr_rsk. destruct (wk_hyb k); rewrite app_length; pose proof (w_leb_nonempty 1); pose proof (w_leb_nonempty 0); lia. Qed.

  Theorem rt_rpk k rest : wf_rpk sz k -> r_rpk sz (wr_rpk k ++ rest) = ROk k rest.
  Proof.
    intros [[Hs _] Hd]. destruct k as [h p ek]. cbn [wp_hyb wp_h wp_ek] in *.
    unfold r_rpk, wr_rpk. cbn [wp_hyb wp_h wp_ek]. destruct h.
    - destruct Hd as [Hd _]. repeat rewrite <- app_assoc.
      change (w_leb 1) with (w_flag true). rewrite r_flag_w. cbn [bind].
      rewrite r_take_w by exact Hs. cbn [bind]. rewrite r_take_w by exact Hd. reflexivity.
    - subst ek. repeat rewrite <- app_assoc.
      change (w_leb 0) with (w_flag false). rewrite r_flag_w. cbn [bind].
      rewrite r_take_w by exact Hs. reflexivity.
  Qed.
  Lemma wr_rpk_nonempty k : 1 <= length (wr_rpk k).
  Proof. unfold wr_rpk. destruct (wp_hyb k); rewrite app_length; pose proof (w_leb_nonempty 1); pose proof (w_leb_nonempty 0); lia. Qed.

  Theorem rt_userid id rest : wf_userid sz id -> r_userid sz (wr_userid id ++ rest) = ROk id rest.
  Proof.
    intros ([Hs _] & Hn & Hb). unfold r_userid, wr_userid. apply r_list_blobs; assumption.
  Qed.
  Lemma wr_userid_nonempty id : 1 <= length (wr_userid id).
  Proof. apply w_list_nonempty. Qed.
End Sized1.

(* ---------- examples: concrete well-formed values, computed through writer then reader ---------- *)
Definition ex_sizes : sizes := {| scalar_len := 2; point_len := 3; ek_len := 5; dk_len := 4; ct_len := 3 |}.
Definition ex_attr : w_attr := {| wa_id := 300; wa_hyb := true; wa_enc := false |}.
Definition ex_dim : bool * list (bytes * w_attr) :=
  (true, [([76; 79; 87]%N, {| wa_id := 0; wa_hyb := false; wa_enc := true |}); ([84; 79; 80]%N, ex_attr)]).
Definition ex_structure : w_structure :=
  {| ws_version := 1; ws_dims := [([83; 69; 67]%N, ex_dim); ([68]%N, (false, []))]; ws_next := Some 301%N |}.
Definition ex_structure_v0 : w_structure :=
  {| ws_version := 0; ws_dims := [([83; 69; 67]%N, ex_dim)]; ws_next := None |}.
Definition ex_rsk_h : w_rsk := {| wk_hyb := true; wk_sk := [1; 2]%N; wk_dk := [3; 4; 5; 6]%N |}.
Definition ex_rsk_c : w_rsk := {| wk_hyb := false; wk_sk := [7; 255]%N; wk_dk := [] |}.
Definition ex_rpk_h : w_rpk := {| wp_hyb := true; wp_h := [1; 2; 3]%N; wp_ek := [4; 5; 6; 7; 8]%N |}.
Definition ex_rpk_c : w_rpk := {| wp_hyb := false; wp_h := [9; 8; 7]%N; wp_ek := [] |}.
Definition ex_userid : list bytes := [[1; 2]; [3; 4]; [5; 6]]%N.

Example default_sizes_wf : wf_sizes default_sizes /\ wf_sizes ex_sizes.
Proof. unfold wf_sizes. cbn. lia. Qed.

Ltac wf_solve :=
  repeat (first [ progress cbn [fst snd] | split | apply Forall_cons | apply Forall_nil | reflexivity
                | (unfold u64, nlen; cbn [length]; lia) | discriminate | exact I ]).

Example ex_attr_wf : wf_attr ex_attr. Proof. unfold wf_attr, u64. cbn. lia. Qed.
Example ex_attr_rt : r_attr (wr_attr ex_attr ++ [9]%N) = ROk ex_attr [9]%N /\ length (wr_attr ex_attr) = 4.
Proof. vm_compute. split; reflexivity. Qed.
Example ex_dim_wf : wf_dim ex_dim.
Proof. unfold wf_dim, ex_dim, wf_named_attr, vec_ok, is_bytes, wf_attr, ex_attr. cbn [fst snd wa_id]. wf_solve. Qed.
Example ex_dim_rt : r_dim (wr_dim ex_dim ++ [9]%N) = ROk ex_dim [9]%N.
Proof. vm_compute. reflexivity. Qed.
Example ex_structure_wf : wf_structure ex_structure.
Proof.
  unfold wf_structure, ex_structure, wf_named_dim, wf_dim, ex_dim, wf_named_attr, vec_ok, is_bytes, wf_attr, ex_attr.
  cbn [fst snd wa_id ws_version ws_dims ws_next]. wf_solve.
Qed.
Example ex_structure_rt : r_structure (wr_structure ex_structure ++ [9]%N) = ROk ex_structure [9]%N
                          /\ whole (r_structure (wr_structure ex_structure)) = Some ex_structure.
Proof. vm_compute. split; reflexivity. Qed.
Example ex_structure_v0_wf : wf_structure ex_structure_v0.
Proof.
  unfold wf_structure, ex_structure_v0, wf_named_dim, wf_dim, ex_dim, wf_named_attr, vec_ok, is_bytes, wf_attr, ex_attr.
  cbn [fst snd wa_id ws_version ws_dims ws_next]. wf_solve.
Qed.
Example ex_structure_v0_rt : whole (r_structure (wr_structure ex_structure_v0)) = Some ex_structure_v0.
Proof. vm_compute. reflexivity. Qed.
Example ex_rsk_wf : wf_rsk ex_sizes ex_rsk_h /\ wf_rsk ex_sizes ex_rsk_c.
Proof. unfold wf_rsk, blob, is_bytes, ex_rsk_h, ex_rsk_c. cbn [wk_hyb wk_sk wk_dk ex_sizes scalar_len dk_len]. wf_solve. Qed.
Example ex_rsk_rt : r_rsk ex_sizes (wr_rsk ex_rsk_h ++ [9]%N) = ROk ex_rsk_h [9]%N
                    /\ r_rsk ex_sizes (wr_rsk ex_rsk_c ++ [9]%N) = ROk ex_rsk_c [9]%N.
Proof. vm_compute. split; reflexivity. Qed.
Example ex_rpk_wf : wf_rpk ex_sizes ex_rpk_h /\ wf_rpk ex_sizes ex_rpk_c.
Proof. unfold wf_rpk, blob, is_bytes, ex_rpk_h, ex_rpk_c. cbn [wp_hyb wp_h wp_ek ex_sizes point_len ek_len]. wf_solve. Qed.
Example ex_rpk_rt : r_rpk ex_sizes (wr_rpk ex_rpk_h ++ [9]%N) = ROk ex_rpk_h [9]%N
                    /\ r_rpk ex_sizes (wr_rpk ex_rpk_c ++ [9]%N) = ROk ex_rpk_c [9]%N.
Proof. vm_compute. split; reflexivity. Qed.
Example ex_userid_wf : wf_userid ex_sizes ex_userid.
Proof. unfold wf_userid, wf_sizes, blob, is_bytes, ex_userid. cbn [ex_sizes scalar_len point_len]. wf_solve. Qed.
Example ex_userid_rt : r_userid ex_sizes (wr_userid ex_userid ++ [9]%N) = ROk ex_userid [9]%N.
Proof. vm_compute. reflexivity. Qed.

Print Assumptions r_list_w.
Print Assumptions rt_attr.
Print Assumptions rt_dim.
Print Assumptions rt_structure.
Print Assumptions rt_rsk.
Print Assumptions rt_rpk.
Print Assumptions rt_userid.
