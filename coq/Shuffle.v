(* The in-place shuffle of src/core/primitives.rs as MACHINE code:

     fn shuffle<T>(xs: &mut [T], rng: &mut impl RngCore) {
         for i in 0..xs.len() { let j = rng.next_u32() as usize % xs.len(); xs.swap(i, j); } }

   CryptoKem.v treats the order in which entries and secrets are walked as arbitrary (c_decaps_iff / h_decaps_iff: the
   result depends on membership only).  What that leaves open is the loop itself: `% xs.len()` panics on a zero length,
   `swap` panics on an index out of range, and a loop that lost or duplicated an element would change membership.  Here:
   for EVERY length (zero included) and EVERY stream of draws the loop panics nowhere and returns a permutation. *)
From Coq Require Import List Arith Lia Permutation FinFun.
Import ListNotations.

Section Shuffle.
  Variable A : Type.

  Inductive res := Val (l : list A) | Panic.

  Fixpoint upd (i : nat) (x : A) (l : list A) : list A :=
    match l, i with
    | [], _ => []
    | _ :: t, O => x :: t
    | h :: t, S i' => h :: upd i' x t
    end.

  (* slice::swap: bounds-checked on both indices *)
  Definition swap (i j : nat) (l : list A) : res :=
    match nth_error l i, nth_error l j with
    | Some a, Some b => Val (upd i b (upd j a l))
    | _, _ => Panic
    end.

  (* `r % len`: a zero divisor panics *)
  Definition rem (r len : nat) : option nat := match len with O => None | S _ => Some (r mod len) end.

  (* the loop body for i = i0, i0+1, ... while draws last; [k] = iterations left (len - i0) *)
  Fixpoint loop (k i : nat) (rs : list nat) (l : list A) : res :=
    match k with
    | O => Val l
    | S k' => match rs with
              | [] => Val l                    (* unreachable when length rs >= k: the generator never runs dry *)
              | r :: rs' => match rem r (length l) with
                            | None => Panic
                            | Some j => match swap i j l with Val l' => loop k' (S i) rs' l' | Panic => Panic end
                            end
              end
    end.

  Definition shuffle (rs : list nat) (l : list A) : res := loop (length l) 0 rs l.

  Lemma upd_length : forall i x l, length (upd i x l) = length l.
  Proof. intros i x l; revert i; induction l as [|h t IH]; intros [|i]; cbn; auto. Qed.

  Lemma nth_error_upd_eq : forall i x l, i < length l -> nth_error (upd i x l) i = Some x.
  Proof. intros i x l; revert i; induction l as [|h t IH]; intros [|i] H; cbn in *; try lia; auto. apply IH; lia. Qed.

  Lemma nth_error_upd_neq : forall i j x l, i <> j -> nth_error (upd i x l) j = nth_error l j.
  Proof.
    intros i j x l; revert i j; induction l as [|h t IH]; intros [|i] [|j] H; cbn; try reflexivity; try lia.
    apply IH; lia.
  Qed.

  Definition transp (i j x : nat) : nat := if Nat.eq_dec x i then j else if Nat.eq_dec x j then i else x.

  Lemma swap_spec : forall i j l, i < length l -> j < length l ->
    exists l', swap i j l = Val l' /\ length l' = length l /\
               forall x, nth_error l' x = nth_error l (transp i j x).
  Proof.
    intros i j l Hi Hj. unfold swap.
    destruct (nth_error l i) as [a|] eqn:Ea; [|apply nth_error_None in Ea; lia].
    destruct (nth_error l j) as [b|] eqn:Eb; [|apply nth_error_None in Eb; lia].
    eexists; split; [reflexivity|]. split; [rewrite !upd_length; reflexivity|].
    intros x. unfold transp. destruct (Nat.eq_dec x i) as [->|Ni].
    - rewrite nth_error_upd_eq by (rewrite upd_length; exact Hi). symmetry; exact Eb.
    - rewrite nth_error_upd_neq by (intro; apply Ni; symmetry; assumption).
      destruct (Nat.eq_dec x j) as [->|Nj].
      + rewrite nth_error_upd_eq by exact Hj. symmetry; exact Ea.
      + rewrite nth_error_upd_neq by (intro; apply Nj; symmetry; assumption). reflexivity.
  Qed.

  Lemma transp_bij : forall i j n, i < n -> j < n -> bFun n (transp i j) /\ bInjective n (transp i j).
  Proof.
    intros i j n Hi Hj. split.
    - intros x Hx. unfold transp. destruct (Nat.eq_dec x i); [lia|]. destruct (Nat.eq_dec x j); lia.
    - intros x y Hx Hy. unfold transp.
      destruct (Nat.eq_dec x i); destruct (Nat.eq_dec y i); destruct (Nat.eq_dec x j); destruct (Nat.eq_dec y j); lia.
  Qed.

  Lemma swap_perm : forall i j l, i < length l -> j < length l ->
    exists l', swap i j l = Val l' /\ Permutation l l'.
  Proof.
    intros i j l Hi Hj. destruct (swap_spec i j l Hi Hj) as (l' & E & Hlen & Hn).
    exists l'. split; [exact E|]. apply Permutation_nth_error. split; [symmetry; exact Hlen|].
    exists (transp i j). split.
    - intros x y Hxy. unfold transp in Hxy.
      destruct (Nat.eq_dec x i); destruct (Nat.eq_dec y i); destruct (Nat.eq_dec x j); destruct (Nat.eq_dec y j); lia.
    - exact Hn.
  Qed.

  (* the loop: i + k = length l is the invariant that keeps i in range *)
  Lemma loop_perm : forall k i rs l, i + k = length l -> exists l', loop k i rs l = Val l' /\ Permutation l l'.
  Proof.
    induction k as [|k IH]; intros i rs l H; cbn [loop].
    - exists l; split; [reflexivity | apply Permutation_refl].
    - destruct rs as [|r rs']; [exists l; split; [reflexivity | apply Permutation_refl]|].
      unfold rem. destruct (length l) as [|n] eqn:El; [lia|].
      assert (Hj : r mod S n < length l) by (rewrite El; apply Nat.mod_upper_bound; lia).
      assert (Hi : i < length l) by lia.
      destruct (swap_perm i (r mod S n) l Hi Hj) as (l1 & E1 & P1). rewrite E1.
      assert (H1 : S i + k = length l1) by (rewrite <- (Permutation_length P1); lia).
      destruct (IH (S i) rs' l1 H1) as (l2 & E2 & P2). exists l2. split; [exact E2|].
      eapply Permutation_trans; eassumption.
  Qed.

  Theorem shuffle_permutation : forall rs l, exists l', shuffle rs l = Val l' /\ Permutation l l'.
  Proof. intros rs l. unfold shuffle. apply loop_perm. reflexivity. Qed.

  Theorem shuffle_no_panic : forall rs l, shuffle rs l <> Panic.
  Proof. intros rs l H. destruct (shuffle_permutation rs l) as (l' & E & _). rewrite E in H. discriminate. Qed.

  (* membership - all that decapsulation depends on (c_decaps_iff, h_decaps_iff) - is unchanged *)
  Theorem shuffle_same_members : forall rs l l', shuffle rs l = Val l' -> forall x, In x l <-> In x l'.
  Proof.
    intros rs l l' E x. destruct (shuffle_permutation rs l) as (l2 & E2 & P). rewrite E in E2. injection E2 as <-.
    split; [apply Permutation_in; exact P | apply Permutation_in; apply Permutation_sym; exact P].
  Qed.

  (* the unguarded variants do panic: a remainder by the length taken BEFORE the loop test, on the empty slice *)
  Definition shuffle_rem_first (rs : list nat) (l : list A) : res :=
    match rs with r :: _ => match rem r (length l) with None => Panic | Some _ => shuffle rs l end | [] => shuffle rs l end.
  Theorem rem_before_test_refuted : shuffle_rem_first [7] [] = Panic.
  Proof. reflexivity. Qed.
End Shuffle.

Example shuffle_example : shuffle nat [5; 0; 7] [10; 20; 30] = Val nat [20; 10; 30].
Proof. vm_compute. reflexivity. Qed.
Example shuffle_empty : shuffle nat [5; 0; 7] [] = Val nat [].
Proof. reflexivity. Qed.
