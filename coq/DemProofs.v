(* DemProofs.v -- theorems about the DEM layers modelled in Dem.v (properties C12, C07-DEM, C16-DEM).

   Reading guide.  All theorems of Section DemThms are proved once, for an arbitrary predicate
   [honest k n a p] ("the honest encryptor encrypted p under key k, nonce n, authentication data a in this
   run"), under the four hypotheses of [DemIdeal] (Dem.v):
       di_kdf_inj    kdf collision free                                    (idealised, random oracle)
       di_correct    decryption of an honest encryption returns the plaintext
       di_len        |AES-GCM(p)| = |p| + 16
       di_authentic  accepted  =>  it is an honest encryption, under that nonce and aad, of the result
   Two instances matter, both are shown inhabited at the end of the file:
     * honest := fun _ _ _ _ => True : the real scheme (nothing idealised in di_correct/di_authentic:
       AES-GCM decryption is the partial inverse of encryption).  The [*_real] corollaries after the
       Section are the round-trip theorems in that instance, without any [honest] premise.
     * honest := a one-entry log : the INT-CTXT ideal world.  The rejection theorems ([ae_altered],
       [ae_truncation], [header_aad_mismatch], [header_altered], ...) carry the premise
       [only_honest k n a p] = "the only AEAD encryption ever made under key k is (n, a, p)".  In Covercrypt
       this is the actual usage: every DEM key is kdf(seed, label) for a seed that is fresh per
       encapsulation, and is used for exactly one AES-GCM encryption.
   A universally quantified "every modified ciphertext is rejected" is FALSE for any correct scheme (the
   encryption of another plaintext is a modified ciphertext and is accepted), so some formulation relative
   to what the honest party produced is unavoidable; [ae_accept_honest] / [header_accept_honest] are the
   general statements, the [only_honest] theorems are their one-encryption-per-key corollaries.

   No Axiom / Admitted; every [Print Assumptions] prints "Closed under the global context".             *)
From Coq Require Import List NArith Bool PeanoNat Lia.
From CC Require Import Dem.
Import ListNotations.

(* ------------------------------------------------------------------ list helpers *)
Lemma firstn_app_exact {A} (l r : list A) k : length l = k -> firstn k (l ++ r) = l.
Proof.
  intros Hk. subst k. induction l as [|x l IH]; cbn [length firstn app].
  - destruct r; reflexivity.
  - f_equal. exact IH.
Qed.

Lemma skipn_app_exact {A} (l r : list A) k : length l = k -> skipn k (l ++ r) = r.
Proof.
  intros Hk. subst k. induction l as [|x l IH]; cbn [length skipn app]; [reflexivity|exact IH].
Qed.

Lemma app_strict_neq {A} (c x : list A) : x <> [] -> c <> c ++ x.
Proof.
  intros Hx E. apply (f_equal (@length A)) in E. rewrite app_length in E.
  destruct x as [|y x]; [apply Hx; reflexivity|]. cbn [length] in E. lia.
Qed.

Section DemThms.
  Variable D : Type.
  Variable kdf : D -> bytes -> D.
  Variable aead_enc : D -> bytes -> bytes -> bytes -> bytes.
  Variable aead_dec : D -> bytes -> bytes -> bytes -> option bytes.
  Variables USK XENC : Type.
  Variable decaps : USK -> XENC -> option D.
  Variable honest : D -> bytes -> bytes -> bytes -> Prop.
  Hypothesis HI : DemIdeal D kdf aead_enc aead_dec honest.

  Local Notation ae_encrypt := (ae_encrypt D aead_enc).
  Local Notation ae_decrypt_g := (ae_decrypt_g D aead_dec).
  Local Notation ae_decrypt := (ae_decrypt D aead_dec).
  Local Notation pke_encrypt := (pke_encrypt D kdf aead_enc XENC).
  Local Notation pke_decrypt_g := (pke_decrypt_g D kdf aead_dec USK XENC decaps).
  Local Notation pke_decrypt := (pke_decrypt D kdf aead_dec USK XENC decaps).
  Local Notation header_generate := (header_generate D kdf aead_enc XENC).
  Local Notation header_decrypt_g := (header_decrypt_g D kdf aead_dec USK XENC decaps).
  Local Notation header_decrypt := (header_decrypt D kdf aead_dec USK XENC decaps).

  (* "under key k the honest encryptor made exactly one AEAD encryption: (n, a, p)" *)
  Definition only_honest (k : D) (n a p : bytes) : Prop :=
    forall n' a' p', honest k n' a' p' -> n' = n /\ a' = a /\ p' = p.

  (* ================================================================ never a panic (no hypothesis used) *)
  Theorem ae_decrypt_no_panic : forall k c, ae_decrypt k c <> DPanic.
  Proof.
    intros k c. unfold Dem.ae_decrypt, Dem.ae_decrypt_g.
    destruct (length c <? NONCE_LENGTH) eqn:E; cbn [andb]; [discriminate|].
    destruct (aead_dec _ _ _ _); discriminate.
  Qed.

  Theorem pke_decrypt_no_panic : forall usk ct, pke_decrypt usk ct <> DPanic.
  Proof.
    intros usk ct. unfold Dem.pke_decrypt, Dem.pke_decrypt_g.
    destruct (decaps usk (fst ct)) as [seed|]; [|discriminate].
    destruct (ae_decrypt_g true (kdf seed label_ae) (snd ct)) eqn:E; try discriminate.
    exfalso. exact (ae_decrypt_no_panic _ _ E).
  Qed.

  Theorem header_decrypt_no_panic : forall usk h ad, header_decrypt usk h ad <> DPanic.
  Proof.
    intros usk h ad. unfold Dem.header_decrypt, Dem.header_decrypt_g.
    destruct (decaps usk (h_enc h)) as [seed|]; [|discriminate].
    destruct (h_emd h) as [ctx|]; [|discriminate].
    destruct (length ctx <? NONCE_LENGTH) eqn:E; cbn [andb]; [discriminate|].
    destruct (aead_dec _ _ _ _); discriminate.
  Qed.

  (* the same code without the length check panics on every input shorter than the nonce *)
  Theorem ae_unguarded_panics : forall k c, length c < NONCE_LENGTH -> ae_decrypt_g false k c = DPanic.
  Proof.
    intros k c Hc. unfold Dem.ae_decrypt_g. apply Nat.ltb_lt in Hc. rewrite Hc. reflexivity.
  Qed.

  Theorem header_unguarded_panics : forall usk enc seed c ad,
    decaps usk enc = Some seed -> length c < NONCE_LENGTH ->
    header_decrypt_g false usk {| h_enc := enc; h_emd := Some c |} ad = DPanic.
  Proof.
    intros usk enc seed c ad Hd Hc. unfold Dem.header_decrypt_g. cbn [h_enc h_emd]. rewrite Hd.
    apply Nat.ltb_lt in Hc. rewrite Hc. reflexivity.
  Qed.

  (* ================================================================ C12: round trips *)
  Lemma honest_split : forall (n c : bytes),
    length n = NONCE_LENGTH ->
    (length (n ++ c) <? NONCE_LENGTH) = false /\
    firstn NONCE_LENGTH (n ++ c) = n /\ skipn NONCE_LENGTH (n ++ c) = c.
  Proof.
    intros n c Hn. split; [|split].
    - apply Nat.ltb_ge. rewrite app_length. lia.
    - exact (firstn_app_exact n c _ Hn).
    - exact (skipn_app_exact n c _ Hn).
  Qed.

  Theorem ae_roundtrip : forall k n p,
    length n = NONCE_LENGTH -> honest k n [] p -> ae_decrypt k (ae_encrypt n k p) = DOk p.
  Proof.
    intros k n p Hn Hh. unfold Dem.ae_decrypt, Dem.ae_decrypt_g, Dem.ae_encrypt.
    destruct (honest_split n (aead_enc k n [] p) Hn) as (E1 & E2 & E3). rewrite E1, E2, E3. cbn [andb].
    rewrite (di_correct _ _ _ _ _ HI k n [] p Hh). reflexivity.
  Qed.

  (* 1. every plaintext, including the empty one *)
  Theorem pke_roundtrip : forall usk seed enc nonce pt,
    length nonce = NONCE_LENGTH -> decaps usk enc = Some seed ->
    honest (kdf seed label_ae) nonce [] pt ->
    pke_decrypt usk (pke_encrypt seed enc nonce pt) = DOk (Some pt).
  Proof.
    intros usk seed enc nonce pt Hn Hd Hh. unfold Dem.pke_decrypt, Dem.pke_decrypt_g, Dem.pke_encrypt.
    cbn [fst snd]. rewrite Hd.
    change (Dem.ae_decrypt_g D aead_dec true) with (Dem.ae_decrypt D aead_dec).
    rewrite (ae_roundtrip _ _ _ Hn Hh). reflexivity.
  Qed.

  (* 2. an unauthorised key gets Ok(None), whatever the symmetric part is *)
  Theorem pke_unauthorized : forall g usk enc c, decaps usk enc = None -> pke_decrypt_g g usk (enc, c) = DOk None.
  Proof. intros g usk enc c Hd. unfold Dem.pke_decrypt_g. cbn [fst snd]. rewrite Hd. reflexivity. Qed.

  Theorem header_unauthorized : forall g usk h ad,
    decaps usk (h_enc h) = None -> header_decrypt_g g usk h ad = DOk None.
  Proof. intros g usk h ad Hd. unfold Dem.header_decrypt_g. rewrite Hd. reflexivity. Qed.

  (* 3. metadata absent / empty / non empty comes back exactly, the secret is the one [header_generate]
        returned, and authentication data with the same content (None ~ Some []) are interchangeable *)
  Theorem header_roundtrip : forall usk seed enc nonce md ad ad',
    length nonce = NONCE_LENGTH -> decaps usk enc = Some seed -> aad_of ad = aad_of ad' ->
    (forall m, md = Some m -> honest (kdf seed label_md) nonce (aad_of ad) m) ->
    header_decrypt usk (snd (header_generate seed enc nonce md ad)) ad'
    = DOk (Some {| c_secret := fst (header_generate seed enc nonce md ad); c_metadata := md |}).
  Proof.
    intros usk seed enc nonce md ad ad' Hn Hd Had Hh.
    unfold Dem.header_decrypt, Dem.header_decrypt_g, Dem.header_generate. cbn [fst snd h_enc h_emd].
    rewrite Hd. destruct md as [m|]; [|reflexivity].
    rewrite <- Had.
    destruct (honest_split nonce (aead_enc (kdf seed label_md) nonce (aad_of ad) m) Hn) as (E1 & E2 & E3).
    rewrite E1, E2, E3. cbn [andb].
    rewrite (di_correct _ _ _ _ _ HI _ _ _ _ (Hh m eq_refl)). reflexivity.
  Qed.

  Theorem aad_none_is_empty : aad_of None = aad_of (Some []).
  Proof. reflexivity. Qed.

  (* ================================================================ C12 / C07: authentication *)
  (* General statement (INT-CTXT of the composed format nonce || body): whatever is accepted is, byte for
     byte, a ciphertext made by the honest encryptor under that key, for the plaintext returned. *)
  Theorem ae_accept_honest : forall g k c p,
    ae_decrypt_g g k c = DOk p ->
    exists n, length n = NONCE_LENGTH /\ honest k n [] p /\ c = ae_encrypt n k p.
  Proof.
    intros g k c p H. unfold Dem.ae_decrypt_g in H.
    destruct (length c <? NONCE_LENGTH) eqn:E.
    - destruct g; cbn [andb] in H; discriminate.
    - rewrite andb_false_r in H. apply Nat.ltb_ge in E.
      destruct (aead_dec k (firstn NONCE_LENGTH c) [] (skipn NONCE_LENGTH c)) as [p'|] eqn:Ed; [|discriminate].
      injection H as Hp. subst p'.
      destruct (di_authentic _ _ _ _ _ HI _ _ _ _ _ Ed) as [Hh Hc].
      exists (firstn NONCE_LENGTH c). split; [|split].
      + apply firstn_length_le. exact E.
      + exact Hh.
      + unfold Dem.ae_encrypt. rewrite <- Hc. symmetry. apply firstn_skipn.
  Qed.

  (* so the result is never "wrong data": Ok(p) only for a ciphertext of p; otherwise Err *)
  Theorem ae_decrypt_cases : forall k c,
    ae_decrypt k c = DErr \/
    exists n p, ae_decrypt k c = DOk p /\ length n = NONCE_LENGTH /\ honest k n [] p /\ c = ae_encrypt n k p.
  Proof.
    intros k c. destruct (ae_decrypt k c) as [p| |] eqn:E.
    - right. destruct (ae_accept_honest true k c p E) as (n & Hn & Hh & Hc). exists n, p. auto.
    - left. reflexivity.
    - exfalso. exact (ae_decrypt_no_panic _ _ E).
  Qed.

  (* 6. any modification whatsoever of the honest ciphertext (nonce part, body, tag, length) is rejected
        with an error -- not a panic, not data *)
  Theorem ae_altered : forall k n p c',
    only_honest k n [] p -> c' <> ae_encrypt n k p -> ae_decrypt k c' = DErr.
  Proof.
    intros k n p c' Hone Hne. destruct (ae_decrypt_cases k c') as [E|(n' & p' & _ & _ & Hh & Hc)]; [exact E|].
    exfalso. apply Hne. destruct (Hone _ _ _ Hh) as (-> & _ & ->). exact Hc.
  Qed.

  (* 5. truncation: every strict prefix of an honest ciphertext is rejected (includes the empty string and
        prefixes shorter than the nonce, which the length guard catches) *)
  Theorem ae_truncation : forall k n p c x,
    only_honest k n [] p -> x <> [] -> c ++ x = ae_encrypt n k p -> ae_decrypt k c = DErr.
  Proof.
    intros k n p c x Hone Hx Hc. apply (ae_altered k n p c Hone). rewrite <- Hc. apply app_strict_neq. exact Hx.
  Qed.

  Theorem ae_extension : forall k n p x,
    only_honest k n [] p -> x <> [] -> ae_decrypt k (ae_encrypt n k p ++ x) = DErr.
  Proof.
    intros k n p x Hone Hx. apply (ae_altered k n p _ Hone). intros E. symmetry in E.
    exact (app_strict_neq _ _ Hx E).
  Qed.

  (* a key under which nothing was encrypted accepts nothing (e.g. a ciphertext moved to another
     encapsulation) *)
  Theorem ae_unused_key_rejects : forall k c, (forall n a p, ~ honest k n a p) -> ae_decrypt k c = DErr.
  Proof.
    intros k c Hno. destruct (ae_decrypt_cases k c) as [E|(n' & p' & _ & _ & Hh & _)]; [exact E|].
    exfalso. exact (Hno _ _ _ Hh).
  Qed.

  (* nothing shorter than nonce + tag is ever accepted (needs no authenticity premise, only di_len) *)
  Theorem ae_short_rejected : forall k c, length c < NONCE_LENGTH + MAC_LENGTH -> ae_decrypt k c = DErr.
  Proof.
    intros k c Hlen. destruct (ae_decrypt_cases k c) as [E|(n' & p' & _ & Hn & _ & Hc)]; [exact E|].
    exfalso. rewrite Hc in Hlen. unfold Dem.ae_encrypt in Hlen.
    rewrite app_length, (di_len _ _ _ _ _ HI), Hn in Hlen. lia.
  Qed.

  Theorem ae_encrypt_length : forall k n p,
    length n = NONCE_LENGTH -> length (ae_encrypt n k p) = NONCE_LENGTH + length p + MAC_LENGTH.
  Proof.
    intros k n p Hn. unfold Dem.ae_encrypt. rewrite app_length, (di_len _ _ _ _ _ HI), Hn. lia.
  Qed.

  (* PKE level (C07, DEM part): same encapsulation, any change of the symmetric ciphertext *)
  Theorem pke_altered : forall usk seed enc nonce pt c',
    decaps usk enc = Some seed -> only_honest (kdf seed label_ae) nonce [] pt ->
    c' <> snd (pke_encrypt seed enc nonce pt) -> pke_decrypt usk (enc, c') = DErr.
  Proof.
    intros usk seed enc nonce pt c' Hd Hone Hne. unfold Dem.pke_decrypt, Dem.pke_decrypt_g. cbn [fst snd].
    rewrite Hd. change (Dem.ae_decrypt_g D aead_dec true) with (Dem.ae_decrypt D aead_dec).
    rewrite (ae_altered _ _ _ c' Hone Hne). reflexivity.
  Qed.

  Theorem pke_accept_honest : forall g usk enc c p,
    pke_decrypt_g g usk (enc, c) = DOk (Some p) ->
    exists seed n, decaps usk enc = Some seed /\ length n = NONCE_LENGTH /\
                   honest (kdf seed label_ae) n [] p /\ (enc, c) = pke_encrypt seed enc n p.
  Proof.
    intros g usk enc c p H. unfold Dem.pke_decrypt_g in H. cbn [fst snd] in H.
    destruct (decaps usk enc) as [seed|] eqn:Hd; [|discriminate].
    destruct (ae_decrypt_g g (kdf seed label_ae) c) as [p'| |] eqn:E; try discriminate.
    injection H as Hp. subst p'.
    destruct (ae_accept_honest _ _ _ _ E) as (n & Hn & Hh & Hc).
    exists seed, n. repeat split; try assumption. unfold Dem.pke_encrypt. rewrite <- Hc. reflexivity.
  Qed.

  (* header level: whatever metadata is accepted was encrypted by the honest generator under the key of this
     encapsulation, this nonce and authentication data of the same content *)
  Theorem header_accept_honest : forall g usk h ad clr,
    header_decrypt_g g usk h ad = DOk (Some clr) ->
    exists seed, decaps usk (h_enc h) = Some seed /\ c_secret clr = kdf seed label_secret /\
      match h_emd h with
      | None => c_metadata clr = None
      | Some c => exists n m, c_metadata clr = Some m /\ length n = NONCE_LENGTH /\
                              honest (kdf seed label_md) n (aad_of ad) m /\
                              c = n ++ aead_enc (kdf seed label_md) n (aad_of ad) m
      end.
  Proof.
    intros g usk h ad clr H. unfold Dem.header_decrypt_g in H.
    destruct (decaps usk (h_enc h)) as [seed|] eqn:Hd; [|discriminate].
    exists seed. split; [reflexivity|].
    destruct (h_emd h) as [c|].
    - destruct (length c <? NONCE_LENGTH) eqn:E.
      + destruct g; cbn [andb] in H; discriminate.
      + rewrite andb_false_r in H. apply Nat.ltb_ge in E.
        destruct (aead_dec (kdf seed label_md) (firstn NONCE_LENGTH c) (aad_of ad) (skipn NONCE_LENGTH c))
          as [m|] eqn:Ed; [|discriminate].
        injection H as Hc. subst clr. cbn [c_secret c_metadata]. split; [reflexivity|].
        destruct (di_authentic _ _ _ _ _ HI _ _ _ _ _ Ed) as [Hh Hb].
        exists (firstn NONCE_LENGTH c), m. repeat split.
        * apply firstn_length_le. exact E.
        * exact Hh.
        * rewrite <- Hb. symmetry. apply firstn_skipn.
    - injection H as Hc. subst clr. cbn [c_secret c_metadata]. split; reflexivity.
  Qed.

  (* C07 (DEM part) / C12: with metadata present, any change of the encrypted metadata bytes or of the
     CONTENT of the authentication data gives an error *)
  Theorem header_altered : forall usk seed enc nonce a m c' ad',
    decaps usk enc = Some seed -> only_honest (kdf seed label_md) nonce a m ->
    c' <> nonce ++ aead_enc (kdf seed label_md) nonce a m \/ aad_of ad' <> a ->
    header_decrypt usk {| h_enc := enc; h_emd := Some c' |} ad' = DErr.
  Proof.
    intros usk seed enc nonce a m c' ad' Hd Hone Hne.
    destruct (header_decrypt usk {| h_enc := enc; h_emd := Some c' |} ad') as [[clr|]| |] eqn:E.
    - exfalso. destruct (header_accept_honest _ _ _ _ _ E) as (seed' & Hd' & _ & Hm).
      cbn [h_enc h_emd] in Hd', Hm. rewrite Hd in Hd'. injection Hd' as <-.
      destruct Hm as (n' & m' & _ & _ & Hh & Hc).
      destruct (Hone _ _ _ Hh) as (En & Ea & Em). destruct Hne as [Hne|Hne].
      + apply Hne. rewrite Hc, En, Ea, Em. reflexivity.
      + apply Hne. exact Ea.
    - exfalso. unfold Dem.header_decrypt, Dem.header_decrypt_g in E. cbn [h_enc h_emd] in E. rewrite Hd in E.
      destruct (andb _ _); [discriminate|]. destruct (Nat.ltb _ _); [discriminate|].
      destruct (aead_dec _ _ _ _); discriminate.
    - reflexivity.
    - exfalso. exact (header_decrypt_no_panic _ _ _ E).
  Qed.

  (* 4. authentication data of different content (absent and empty being the same content) *)
  Theorem header_aad_mismatch : forall usk seed enc nonce m ad ad',
    decaps usk enc = Some seed -> only_honest (kdf seed label_md) nonce (aad_of ad) m ->
    aad_of ad <> aad_of ad' ->
    header_decrypt usk (snd (header_generate seed enc nonce (Some m) ad)) ad' = DErr.
  Proof.
    intros usk seed enc nonce m ad ad' Hd Hone Hne. unfold Dem.header_generate. cbn [snd].
    apply (header_altered usk seed enc nonce (aad_of ad) m _ ad' Hd Hone). right. congruence.
  Qed.

  Theorem header_metadata_altered : forall usk seed enc nonce m ad ad' c',
    decaps usk enc = Some seed -> only_honest (kdf seed label_md) nonce (aad_of ad) m ->
    Some c' <> h_emd (snd (header_generate seed enc nonce (Some m) ad)) ->
    header_decrypt usk {| h_enc := enc; h_emd := Some c' |} ad' = DErr.
  Proof.
    intros usk seed enc nonce m ad ad' c' Hd Hone Hne. unfold Dem.header_generate in Hne. cbn [snd h_emd] in Hne.
    apply (header_altered usk seed enc nonce (aad_of ad) m c' ad' Hd Hone). left. intros E. apply Hne. rewrite E. reflexivity.
  Qed.

  Theorem header_metadata_truncated : forall usk seed enc nonce m ad ad' c x,
    decaps usk enc = Some seed -> only_honest (kdf seed label_md) nonce (aad_of ad) m ->
    x <> [] -> Some (c ++ x) = h_emd (snd (header_generate seed enc nonce (Some m) ad)) ->
    header_decrypt usk {| h_enc := enc; h_emd := Some c |} ad' = DErr.
  Proof.
    intros usk seed enc nonce m ad ad' c x Hd Hone Hx Hc.
    apply (header_metadata_altered usk seed enc nonce m ad ad' c Hd Hone).
    rewrite <- Hc. intros E. injection E as E. exact (app_strict_neq _ _ Hx E).
  Qed.

  (* LIMIT of the authentication (true of the code, reported as a finding for C07): the encrypted metadata is
     not bound to the encapsulation.  Deleting it altogether is accepted, with the same secret, metadata
     reported absent and the authentication data ignored. *)
  Theorem header_strip_metadata_accepted : forall usk seed enc nonce md ad ad',
    decaps usk enc = Some seed ->
    header_decrypt usk {| h_enc := h_enc (snd (header_generate seed enc nonce md ad)); h_emd := None |} ad'
    = DOk (Some {| c_secret := fst (header_generate seed enc nonce md ad); c_metadata := None |}).
  Proof.
    intros usk seed enc nonce md ad ad' Hd. unfold Dem.header_decrypt, Dem.header_decrypt_g, Dem.header_generate.
    cbn [fst snd h_enc h_emd]. rewrite Hd. reflexivity.
  Qed.

  (* without metadata the authentication data is not checked at all *)
  Theorem header_no_metadata_ignores_ad : forall g usk h ad ad',
    h_emd h = None -> header_decrypt_g g usk h ad = header_decrypt_g g usk h ad'.
  Proof. intros g usk h ad ad' Hm. unfold Dem.header_decrypt_g. rewrite Hm. reflexivity. Qed.

  (* ================================================================ C16: key separation *)
  (* 7. the key that encrypts the metadata is not the secret handed to the caller (for any two seeds) *)
  Theorem metadata_key_ne_secret : forall seed seed', kdf seed label_md <> kdf seed' label_secret.
  Proof. intros seed seed' E. apply (di_kdf_inj _ _ _ _ _ HI) in E. destruct E as [_ E]. discriminate E. Qed.

  Theorem ae_key_label_distinct : forall seed seed',
    kdf seed label_ae <> kdf seed' label_md /\ kdf seed label_ae <> kdf seed' label_secret.
  Proof.
    intros seed seed'. split; intros E; apply (di_kdf_inj _ _ _ _ _ HI) in E; destruct E as [_ E]; discriminate E.
  Qed.

  Theorem keys_of_distinct_seeds : forall seed seed' l l', seed <> seed' -> kdf seed l <> kdf seed' l'.
  Proof. intros seed seed' l l' Hne E. apply (di_kdf_inj _ _ _ _ _ HI) in E. destruct E as [E _]. exact (Hne E). Qed.

  (* ================================================================ C16: nonces never repeat in a run *)
  Section Run.
    Variable fresh : nat -> bytes.
    Hypothesis HF : FreshIdeal fresh.
    Local Notation run := (run D kdf aead_enc XENC fresh).
    Local Notation step := (step D kdf aead_enc XENC fresh).
    Local Notation out_nonces := (@out_nonces D XENC).

    Lemma step_nonces : forall ctr c,
      (fst (step ctr c) = ctr /\ out_nonces (snd (step ctr c)) = []) \/
      (fst (step ctr c) = S ctr /\ out_nonces (snd (step ctr c)) = [fresh ctr]).
    Proof.
      intros ctr c. destruct HF as [_ Hlen]. destruct c as [seed enc ptx|seed enc [m|] ad].
      - right. cbn [Dem.step fst snd Dem.out_nonces Dem.pke_encrypt]. unfold Dem.ae_encrypt.
        rewrite (firstn_app_exact _ _ _ (Hlen ctr)). split; reflexivity.
      - right. cbn [Dem.step Dem.header_generate fst snd Dem.out_nonces h_emd].
        rewrite (firstn_app_exact _ _ _ (Hlen ctr)). split; reflexivity.
      - left. cbn [Dem.step Dem.header_generate fst snd Dem.out_nonces h_emd]. split; reflexivity.
    Qed.

    Lemma run_cons : forall ctr c cs, run ctr (c :: cs) = snd (step ctr c) :: run (fst (step ctr c)) cs.
    Proof. intros ctr c cs. cbn [Dem.run]. destruct (step ctr c) as [ctr' o]. reflexivity. Qed.

    (* every nonce on the wire is an element of the stream at an index not used before the run *)
    Lemma run_nonces_from : forall cs ctr x,
      In x (flat_map out_nonces (run ctr cs)) -> exists i, ctr <= i /\ x = fresh i.
    Proof.
      induction cs as [|c cs IH]; intros ctr x Hin; [destruct Hin|].
      rewrite run_cons in Hin. cbn [flat_map] in Hin. apply in_app_or in Hin.
      destruct (step_nonces ctr c) as [[E1 E2]|[E1 E2]]; rewrite E1, E2 in Hin.
      - destruct Hin as [[]|Hin]. exact (IH _ _ Hin).
      - destruct Hin as [[Hx|[]]|Hin].
        + exists ctr. split; [lia|symmetry; exact Hx].
        + destruct (IH _ _ Hin) as (i & Hi & Hx). exists i. split; [lia|exact Hx].
    Qed.

    (* 8. no two PKE ciphertexts / encrypted metadata produced by a run share an AEAD nonce *)
    Theorem run_nonces_nodup : forall cs ctr, NoDup (flat_map out_nonces (run ctr cs)).
    Proof.
      induction cs as [|c cs IH]; intros ctr; [constructor|].
      rewrite run_cons. cbn [flat_map].
      destruct (step_nonces ctr c) as [[E1 E2]|[E1 E2]]; rewrite E1, E2; cbn [app].
      - apply IH.
      - constructor; [|apply IH]. intros Hin. destruct (run_nonces_from _ _ _ Hin) as (i & Hi & Hx).
        destruct HF as [Hinj _]. apply Hinj in Hx. lia.
    Qed.

    Theorem run_length : forall cs ctr, length (run ctr cs) = length cs.
    Proof.
      induction cs as [|c cs IH]; intros ctr; [reflexivity|]. rewrite run_cons. cbn [length]. f_equal. apply IH.
    Qed.
  End Run.
End DemThms.

Print Assumptions ae_decrypt_no_panic.
Print Assumptions pke_decrypt_no_panic.
Print Assumptions header_decrypt_no_panic.
Print Assumptions ae_unguarded_panics.
Print Assumptions pke_roundtrip.
Print Assumptions pke_unauthorized.
Print Assumptions header_roundtrip.
Print Assumptions ae_accept_honest.
Print Assumptions ae_altered.
Print Assumptions ae_truncation.
Print Assumptions ae_short_rejected.
Print Assumptions pke_altered.
Print Assumptions header_accept_honest.
Print Assumptions header_altered.
Print Assumptions header_aad_mismatch.
Print Assumptions header_metadata_altered.
Print Assumptions header_strip_metadata_accepted.
Print Assumptions metadata_key_ne_secret.
Print Assumptions ae_key_label_distinct.
Print Assumptions run_nonces_nodup.

(* ==================================================================== the REAL instance: honest = True *)
(* The round-trip theorems exactly as required by C12, with no [honest] premise, for any AEAD that is
   correct and whose decryption is the partial inverse of encryption. *)
Definition all_honest {D : Type} : D -> bytes -> bytes -> bytes -> Prop := fun _ _ _ _ => True.

Section Real.
  Variable D : Type.
  Variable kdf : D -> bytes -> D.
  Variable aead_enc : D -> bytes -> bytes -> bytes -> bytes.
  Variable aead_dec : D -> bytes -> bytes -> bytes -> option bytes.
  Variables USK XENC : Type.
  Variable decaps : USK -> XENC -> option D.
  Hypothesis HR : DemIdeal D kdf aead_enc aead_dec all_honest.

  Theorem pke_roundtrip_real : forall usk seed enc nonce pt,
    length nonce = NONCE_LENGTH -> decaps usk enc = Some seed ->
    pke_decrypt D kdf aead_dec USK XENC decaps usk
      (enc, ae_encrypt D aead_enc nonce (kdf seed label_ae) pt) = DOk (Some pt).
  Proof.
    intros usk seed enc nonce pt Hn Hd.
    exact (pke_roundtrip D kdf aead_enc aead_dec USK XENC decaps all_honest HR usk seed enc nonce pt Hn Hd I).
  Qed.

  Theorem header_roundtrip_real : forall usk seed enc nonce md ad ad',
    length nonce = NONCE_LENGTH -> decaps usk enc = Some seed -> aad_of ad = aad_of ad' ->
    header_decrypt D kdf aead_dec USK XENC decaps usk
      (snd (header_generate D kdf aead_enc XENC seed enc nonce md ad)) ad'
    = DOk (Some {| c_secret := fst (header_generate D kdf aead_enc XENC seed enc nonce md ad);
                   c_metadata := md |}).
  Proof.
    intros usk seed enc nonce md ad ad' Hn Hd Had.
    apply (header_roundtrip D kdf aead_enc aead_dec USK XENC decaps all_honest HR); try assumption.
    intros m _. exact I.
  Qed.

  (* in the real instance "accepted" means "well-formed encryption under this very key": producing a
     modified ciphertext that is accepted amounts to encrypting under the secret key *)
  Theorem ae_accept_wellformed_real : forall g k c p,
    ae_decrypt_g D aead_dec g k c = DOk p ->
    exists n, length n = NONCE_LENGTH /\ c = ae_encrypt D aead_enc n k p.
  Proof.
    intros g k c p H.
    destruct (ae_accept_honest D kdf aead_enc aead_dec all_honest HR g k c p H) as (n & Hn & _ & Hc).
    exists n. split; assumption.
  Qed.
End Real.

Print Assumptions pke_roundtrip_real.
Print Assumptions header_roundtrip_real.
Print Assumptions ae_accept_wellformed_real.

(* ==================================================================== the hypotheses are satisfiable *)
Lemma DemIdeal_ext D kdf enc dec (h1 h2 : D -> bytes -> bytes -> bytes -> Prop) :
  (forall k n a p, h1 k n a p <-> h2 k n a p) -> DemIdeal D kdf enc dec h1 -> DemIdeal D kdf enc dec h2.
Proof.
  intros Hext [H1 H2 H3 H4]. constructor.
  - exact H1.
  - intros k n a p Hh. apply H2. apply Hext. exact Hh.
  - exact H3.
  - intros k n a c p Hd. destruct (H4 _ _ _ _ _ Hd) as [Hh Hc]. split; [apply Hext; exact Hh|exact Hc].
Qed.

Lemma enc_pos_inj : forall p p' r r', enc_pos p r = enc_pos p' r' -> p = p' /\ r = r'.
Proof.
  induction p as [p IH|p IH|]; intros [p'|p'|] r r' E; cbn [enc_pos] in E; try discriminate E.
  - injection E as E. destruct (IH _ _ _ E) as [-> ->]. split; reflexivity.
  - injection E as E. destruct (IH _ _ _ E) as [-> ->]. split; reflexivity.
  - injection E as E. subst r'. split; reflexivity.
Qed.

Lemma enc_pos_not_one : forall p r, enc_pos p r <> xH.
Proof. intros [p|p|] r; cbn [enc_pos]; discriminate. Qed.

Lemma enc_list_inj : forall l l', enc_list l = enc_list l' -> l = l'.
Proof.
  induction l as [|x l IH]; intros [|y l'] E; cbn [enc_list] in E.
  - reflexivity.
  - exfalso. symmetry in E. exact (enc_pos_not_one _ _ E).
  - exfalso. exact (enc_pos_not_one _ _ E).
  - unfold enc_N in E. destruct (enc_pos_inj _ _ _ _ E) as [Ex El].
    apply (f_equal Pos.pred_N) in Ex. rewrite !N.pos_pred_succ in Ex. subst y. f_equal. exact (IH _ El).
Qed.

Lemma code_inj : forall l l', code l = code l' -> l = l'.
Proof. intros l l' E. unfold code in E. injection E as E. exact (enc_list_inj _ _ E). Qed.

Lemma beq_bytes_eq : forall a b, beq_bytes a b = true <-> a = b.
Proof.
  induction a as [|x a IH]; intros [|y b]; cbn [beq_bytes]; split; intros E; try discriminate E; try reflexivity.
  - apply andb_prop in E. destruct E as [E1 E2]. apply N.eqb_eq in E1. apply IH in E2. subst. reflexivity.
  - injection E as -> ->. rewrite N.eqb_refl. cbn [andb]. apply IH. reflexivity.
Qed.

Lemma toy_tag_len : forall k n a p, length (toy_tag k n a p) = MAC_LENGTH.
Proof. reflexivity. Qed.

Lemma toy_ideal : forall hon,
  DemIdeal N toy_kdf toy_enc (toy_dec hon) (fun k n a p => hon k n a p = true).
Proof.
  intros hon. constructor.
  - intros s l s' l' E. unfold toy_kdf in E. apply code_inj in E. injection E as -> ->. split; reflexivity.
  - intros k n a p Hh. unfold toy_dec, toy_enc. rewrite app_length, toy_tag_len.
    replace (length p + MAC_LENGTH <? MAC_LENGTH) with false by (symmetry; apply Nat.ltb_ge; lia).
    replace (length p + MAC_LENGTH - MAC_LENGTH) with (length p) by lia. cbv zeta.
    rewrite (firstn_app_exact p _ _ eq_refl), (skipn_app_exact p _ _ eq_refl), Hh.
    rewrite (proj2 (beq_bytes_eq _ _) eq_refl). reflexivity.
  - intros k n a p. unfold toy_enc. rewrite app_length, toy_tag_len. reflexivity.
  - intros k n a c p Hd. unfold toy_dec in Hd. cbv zeta in Hd.
    destruct (length c <? MAC_LENGTH); [discriminate|].
    destruct (andb _ _) eqn:E; [|discriminate]. injection Hd as Hp.
    apply andb_prop in E. destruct E as [E1 E2]. apply beq_bytes_eq in E1. rewrite Hp in E1, E2.
    split; [exact E2|]. unfold toy_enc. rewrite <- E1, <- Hp. symmetry. apply firstn_skipn.
Qed.

(* real reading: every encryption is available *)
Example dem_inhabited : DemIdeal N toy_kdf toy_enc (toy_dec hon_all) all_honest.
Proof.
  apply (DemIdeal_ext _ _ _ _ _ _ (fun k n a p => conj (fun _ => I) (fun _ => eq_refl)) (toy_ideal hon_all)).
Qed.

Lemma hon_one_spec : forall k0 n0 a0 p0 k n a p,
  hon_one k0 n0 a0 p0 k n a p = true <-> k = k0 /\ n = n0 /\ a = a0 /\ p = p0.
Proof.
  intros. unfold hon_one. rewrite !andb_true_iff, N.eqb_eq, !beq_bytes_eq. tauto.
Qed.

(* ideal reading: exactly one honest encryption (k0, n0, a0, p0) in the run *)
Example dem_inhabited_ideal : forall k0 n0 a0 p0,
  DemIdeal N toy_kdf toy_enc (toy_dec (hon_one k0 n0 a0 p0))
           (fun k n a p => k = k0 /\ n = n0 /\ a = a0 /\ p = p0).
Proof.
  intros. apply (DemIdeal_ext _ _ _ _ _ _ (hon_one_spec k0 n0 a0 p0) (toy_ideal _)).
Qed.

Lemma only_honest_one : forall k0 n0 a0 p0,
  only_honest N (fun k n a p => k = k0 /\ n = n0 /\ a = a0 /\ p = p0) k0 n0 a0 p0.
Proof. intros k0 n0 a0 p0 n a p (_ & -> & -> & ->). repeat split. Qed.

Example fresh_inhabited : FreshIdeal toy_fresh.
Proof.
  split.
  - intros i j E. unfold toy_fresh in E. injection E as E. apply Nat2N.inj. exact E.
  - intros i. reflexivity.
Qed.

Print Assumptions dem_inhabited.
Print Assumptions dem_inhabited_ideal.
Print Assumptions fresh_inhabited.

(* Worked examples of every theorem on the toy instance (0-length plaintext, metadata Some [], ad None vs
   Some [], truncations, byte flips, the 5-byte input without the length guard, a run): DemExamples.v *)
