(* Prototype proofs (scratch): C06 invariant on the repaired Keys model *)
From Coq Require Import List NArith Bool Arith Lia Permutation.
Require Import Policy Structure Keys SelProofs RefreshProofs.
Import ListNotations.

Lemma list_N_eqb_eq : forall a b, list_N_eqb a b = true <-> a = b.
Proof.
  induction a as [|x a IH]; intros [|y b]; cbn; split; intros H; try reflexivity; try discriminate.
  - apply andb_true_iff in H. destruct H as [H1 H2]. apply N.eqb_eq in H1. apply IH in H2. subst. reflexivity.
  - inversion H; subst. apply andb_true_iff. split; [apply N.eqb_refl|apply IH; reflexivity].
Qed.
Lemma rlookup_In {A} k (v : A) l : rlookup k l = Some v -> In (k, v) l.
Proof.
  induction l as [|[k' v'] l IH]; cbn; [discriminate|]. destruct (list_N_eqb k k') eqn:E.
  - intros H. inversion H; subst. apply list_N_eqb_eq in E. subst. left. reflexivity.
  - intros H. right. apply IH. exact H.
Qed.
Lemma rreplace_In {A} k (v : A) l r ch : In (r, ch) (rreplace k v l) -> (r, ch) = (k, v) \/ In (r, ch) l.
Proof.
  induction l as [|[k' v'] l IH]; cbn; [intros []|]. destruct (list_N_eqb k k').
  - intros [H|H]; [left; symmetry; exact H|right; right; exact H].
  - intros [H|H]; [right; left; exact H|]. destruct (IH H) as [E|E]; [left; exact E|right; right; exact E].
Qed.

(* an activated point only contains enabled attributes *)
Lemma combine_enc a : forall ds ids h e, In (ids, h, e) (combine ds) -> In a ids ->
  exists d n att, In d ds /\ In (n, att) (attrs_of d) /\ a_id att = a /\ (e = true -> a_enc att = true).
Proof.
  induction ds as [|d rest IH]; intros ids h e Hin Ha; cbn [combine] in Hin.
  - destruct Hin as [H|[]]. inversion H; subst. destruct Ha.
  - apply in_app_iff in Hin. destruct Hin as [Hin|Hin].
    + destruct (IH _ _ _ Hin Ha) as (d' & n & att & Hd & Hn & Hid & He). exists d', n, att. repeat split; [right; exact Hd|exact Hn|exact Hid|exact He].
    + apply in_flat_map in Hin. destruct Hin as ([n0 att0] & Hna & Hin). apply in_map_iff in Hin.
      destruct Hin as ([[ids' h'] e'] & E & Hpc). cbn in E. inversion E; subst; clear E.
      destruct Ha as [Ha|Ha].
      * exists d, n0, att0. repeat split; [left; reflexivity|exact Hna|exact Ha|]. intros He. apply andb_true_iff in He. tauto.
      * destruct (IH _ _ _ Hpc Ha) as (d' & n & att & Hd & Hn & Hid & He). exists d', n, att.
        repeat split; [right; exact Hd|exact Hn|exact Hid|]. intros H. apply andb_true_iff in H. apply He. tauto.
Qed.

Definition disabled_id (st : structure) (a : N) : Prop :=
  forall d n att, In d (map snd (dims st)) -> In (n, att) (attrs_of d) -> a_id att = a -> a_enc att = false.

Lemma omega_disabled st a r h e : disabled_id st a -> In (r, (h, e)) (omega st) -> In a r -> e = false.
Proof.
  intros Hdis Hin Ha. unfold omega in Hin. apply in_map_iff in Hin. destruct Hin as ([[ids h'] e'] & E & Hc). inversion E; subst; clear E.
  assert (Ha' : In a ids). { unfold right_of_point in Ha. eapply Permutation_in; [apply sort_perm|exact Ha]. }
  destruct (combine_enc a _ _ _ _ Hc Ha') as (d & n & att & Hd & Hn & Hid & He).
  destruct e; [|reflexivity]. specialize (He eq_refl). rewrite (Hdis d n att Hd Hn Hid) in He. discriminate.
Qed.

Lemma omega_map_sub st r v : In (r, v) (omega_map st) -> In (r, v) (omega st).
Proof.
  unfold omega_map.
  assert (G : forall l acc, (forall r v, In (r, v) acc -> In (r, v) (omega st)) -> (forall x, In x l -> In x (omega st)) ->
              forall r v, In (r, v) (fold_left (fun acc '(r, v) => if rmem r acc then rreplace r v acc else acc ++ [(r, v)]) l acc) -> In (r, v) (omega st)).
  { induction l as [|[r0 v0] l IH]; intros acc Hacc Hl r' v' H; cbn in H; [apply Hacc; exact H|].
    eapply IH; [| |exact H].
    - intros r1 v1 H1. destruct (rmem r0 acc).
      + apply rreplace_In in H1. destruct H1 as [E|H1]; [inversion E; subst; apply Hl; left; reflexivity|apply Hacc; exact H1].
      + apply in_app_iff in H1. destruct H1 as [H1|[E|[]]]; [apply Hacc; exact H1|inversion E; subst; apply Hl; left; reflexivity].
    - intros x Hx. apply Hl. right. exact Hx. }
  apply G; [intros ? ? []|intros x Hx; exact Hx].
Qed.

(* the invariant: every right that involves id a has a deactivated newest secret *)
Definition front_off (ch : list (bool * secret)) : Prop := exists s older, ch = (false, s) :: older.
Definition Dis (a : N) (secs : list (rightk * list (bool * secret))) : Prop :=
  forall r ch, rlookup r secs = Some ch -> In a r -> front_off ch.
Definition nonempty_chains (secs : list (rightk * list (bool * secret))) : Prop := forall r ch, In (r, ch) secs -> ch <> [].

Lemma list_N_eqb_refl a : list_N_eqb a a = true. Proof. apply list_N_eqb_eq. reflexivity. Qed.
Lemma rlookup_rreplace {A} k (v : A) l r : rlookup k l <> None ->
  rlookup r (rreplace k v l) = if list_N_eqb r k then Some v else rlookup r l.
Proof.
  induction l as [|[k' v'] l IH]; cbn; intros Hk; [contradiction|].
  destruct (list_N_eqb k k') eqn:E.
  - apply list_N_eqb_eq in E. subst k'. cbn. destruct (list_N_eqb r k); reflexivity.
  - cbn. destruct (list_N_eqb r k') eqn:E2.
    + destruct (list_N_eqb r k) eqn:E3; [|reflexivity]. apply list_N_eqb_eq in E2, E3. subst. rewrite list_N_eqb_refl in E. discriminate.
    + apply IH. exact Hk.
Qed.
Lemma rlookup_app_new {A} k (v : A) l r : rlookup k l = None ->
  rlookup r (l ++ [(k, v)]) = match rlookup r l with Some x => Some x | None => if list_N_eqb r k then Some v else None end.
Proof.
  induction l as [|[k' v'] l IH]; cbn; intros Hk; [reflexivity|].
  destruct (list_N_eqb k k') eqn:E; [discriminate|]. destruct (list_N_eqb r k'); [reflexivity|]. apply IH. exact Hk.
Qed.
Lemma rlookup_filter {A} (f : rightk * A -> bool) l r v : rlookup r (filter f l) = Some v -> f (r, v) = true /\ In (r, v) l.
Proof.
  induction l as [|[k' v'] l IH]; cbn; [discriminate|]. destruct (f (k', v')) eqn:Ef.
  - cbn. destruct (list_N_eqb r k') eqn:E.
    + intros H. inversion H; subst. apply list_N_eqb_eq in E. subst. split; [exact Ef|left; reflexivity].
    + intros H. destruct (IH H) as [H1 H2]. split; [exact H1|right; exact H2].
  - intros H. destruct (IH H) as [H1 H2]. split; [exact H1|right; exact H2].
Qed.

Lemma upd_loop_dis a : forall rights secs ctr secs' ctr',
  (forall r h e, In (r, (h, e)) rights -> In a r -> e = false) ->
  (forall r ch, rlookup r secs = Some ch -> In a r -> front_off ch \/ rmem r rights = true) ->
  nonempty_chains secs ->
  upd_loop rights secs ctr = ROk (secs', ctr') -> Dis a secs' /\ nonempty_chains secs'.
Proof.
  induction rights as [|[r0 [h e]] rights IH]; intros secs ctr secs' ctr' Hr Hs Hne H; cbn [upd_loop] in H.
  - inversion H; subst. split; [|exact Hne]. intros r ch Hl Ha. destruct (Hs r ch Hl Ha) as [Hd|Hd]; [exact Hd|discriminate].
  - assert (Hr' : forall r h e, In (r, (h, e)) rights -> In a r -> e = false) by (intros; eapply Hr; [right; eassumption|assumption]).
    destruct (rlookup r0 secs) as [[|[fl s] older]|] eqn:El.
    + exfalso. eapply Hne; [apply rlookup_In; exact El|reflexivity].
    + eapply IH; [exact Hr'| | |exact H].
      * intros r ch Hl Ha. rewrite rlookup_rreplace in Hl by (rewrite El; discriminate).
        destruct (list_N_eqb r r0) eqn:E.
        -- apply list_N_eqb_eq in E. subst r0. inversion Hl; subst. left.
           assert (e = false) by (eapply Hr; [left; reflexivity|exact Ha]). subst e. eexists _, _. reflexivity.
        -- destruct (Hs r ch Hl Ha) as [Hd|Hd]; [left; exact Hd|right]. unfold rmem in *. cbn in Hd. rewrite E in Hd. exact Hd.
      * intros r ch Hin. apply rreplace_In in Hin. destruct Hin as [E|Hin]; [inversion E; subst; discriminate|eapply Hne; exact Hin].
    + destruct (negb e) eqn:Ee; [discriminate|]. apply negb_false_iff in Ee. subst e.
      eapply IH; [exact Hr'| | |exact H].
      * intros r ch Hl Ha. rewrite rlookup_app_new in Hl by exact El.
        destruct (rlookup r secs) as [x|] eqn:E1.
        -- inversion Hl; subst x. destruct (Hs r ch E1 Ha) as [Hd|Hd]; [left; exact Hd|right]. unfold rmem in *. cbn in Hd.
           destruct (list_N_eqb r r0) eqn:E; [apply list_N_eqb_eq in E; subst; rewrite El in E1; discriminate|exact Hd].
        -- destruct (list_N_eqb r r0) eqn:E; [|discriminate]. apply list_N_eqb_eq in E. subst r0.
           exfalso. assert (true = false) by (eapply Hr; [left; reflexivity|exact Ha]). discriminate.
      * intros r ch Hin. apply in_app_iff in Hin. destruct Hin as [Hin|[E|[]]]; [eapply Hne; exact Hin|inversion E; subst; discriminate].
Qed.

(* update_msk establishes the invariant for every id whose attribute is disabled in the structure *)
Theorem update_msk_dis fx a m ctr m' rm ctr' :
  disabled_id (m_st m) a -> nonempty_chains (m_secrets m) ->
  update_msk fx m ctr = (ROk rm, m', ctr') -> Dis a (m_secrets m') /\ nonempty_chains (m_secrets m').
Proof.
  intros Hdis Hne H. unfold update_msk in H.
  destruct (upd_loop _ _ _) as [[secs c]|] eqn:Eu; [|destruct (fx_update fx); discriminate].
  inversion H; subst; clear H. cbn [m_secrets].
  eapply (upd_loop_dis a); [| | |exact Eu].
  - intros r h e Hin Ha. eapply omega_disabled; [exact Hdis|apply omega_map_sub; exact Hin|exact Ha].
  - intros r ch Hl _. right. apply rlookup_filter in Hl. destruct Hl as [Hf _]. exact Hf.
  - intros r ch Hin. apply filter_In in Hin. destruct Hin as [Hin _]. eapply Hne. exact Hin.
Qed.

Lemma rekey_loop_dis a : forall rs secs ctr,
  Dis a secs -> nonempty_chains secs ->
  Dis a (fst (rekey_loop fx_all rs secs ctr)) /\ nonempty_chains (fst (rekey_loop fx_all rs secs ctr)).
Proof.
  induction rs as [|r0 rs IH]; intros secs ctr Hd Hne; cbn [rekey_loop]; [split; assumption|].
  destruct (rlookup r0 secs) as [[|[fl s] older]|] eqn:El; try (apply IH; assumption).
  apply IH.
  - intros r ch Hl Ha. rewrite rlookup_rreplace in Hl by (rewrite El; discriminate).
    destruct (list_N_eqb r r0) eqn:E; [|eapply Hd; eassumption].
    apply list_N_eqb_eq in E. subst r0. inversion Hl; subst. cbn [fx_rekey_flag fx_all].
    destruct (Hd r _ El Ha) as (s0 & older0 & E0). inversion E0; subst. eexists _, _. reflexivity.
  - intros r ch Hin. apply rreplace_In in Hin. destruct Hin as [E|Hin]; [inversion E; subst; discriminate|eapply Hne; exact Hin].
Qed.

Lemma rlookup_map_vals {A B} (g : rightk -> A -> B) l r :
  rlookup r (map (fun '(k, v) => (k, g k v)) l) = option_map (g r) (rlookup r l).
Proof.
  induction l as [|[k v] l IH]; cbn; [reflexivity|]. destruct (list_N_eqb r k) eqn:E; [|exact IH].
  apply list_N_eqb_eq in E. subst. reflexivity.
Qed.

Lemma rlookup_prune m rs r :
  rlookup r (m_secrets (prune m rs)) =
  option_map (fun ch => if existsb (list_N_eqb r) rs then firstn 1 ch else ch) (rlookup r (m_secrets m)).
Proof.
  unfold prune. cbn [m_secrets]. induction (m_secrets m) as [|[k v] l IH]; [reflexivity|]. cbn [map].
  destruct (existsb (list_N_eqb k) rs) eqn:Ek; cbn [rlookup]; destruct (list_N_eqb r k) eqn:E; try exact IH;
    apply list_N_eqb_eq in E; subst k; cbn; rewrite Ek; reflexivity.
Qed.
Lemma prune_dis a m rs : Dis a (m_secrets m) -> Dis a (m_secrets (prune m rs)).
Proof.
  intros Hd r ch Hl Ha. rewrite rlookup_prune in Hl.
  destruct (rlookup r (m_secrets m)) as [ch0|] eqn:E; [|discriminate]. cbn in Hl. inversion Hl; subst.
  destruct (Hd r ch0 E Ha) as (s & older & ->). destruct (existsb (list_N_eqb r) rs); eexists _, _; reflexivity.
Qed.

(* a public key derived from a master key satisfying the invariant publishes no right involving a *)
Theorem mpk_unpublished a m : NoDup (map fst (m_secrets m)) -> Dis a (m_secrets m) ->
  forall r s, In (r, s) (p_keys (mk_mpk m)) -> ~ In a r.
Proof.
  intros Hnd Hd r s Hin Ha. unfold mk_mpk in Hin. cbn [p_keys] in Hin. apply in_flat_map in Hin.
  destruct Hin as ([r' ch] & Hin & Hx). destruct ch as [|[fl s'] older]; [destruct Hx|]. destruct fl; [|destruct Hx].
  destruct Hx as [E|[]]. inversion E; subst.
  assert (Hl : rlookup r (m_secrets m) = Some ((true, s) :: older)).
  { clear - Hnd Hin. induction (m_secrets m) as [|[k v] l IH]; [destruct Hin|]. cbn in Hnd. inversion Hnd as [|? ? Hk Hnd']; subst. cbn.
    destruct Hin as [E|Hin]; [inversion E; subst; rewrite list_N_eqb_refl; reflexivity|].
    destruct (list_N_eqb r k) eqn:E; [|apply IH; assumption]. apply list_N_eqb_eq in E. subst k. exfalso. apply Hk. apply in_map_iff. exists (r, (true, s) :: older). split; [reflexivity|exact Hin]. }
  destruct (Hd r _ Hl Ha) as (s0 & older0 & E0). discriminate.
Qed.

(* hence encapsulating for any set of rights one of which involves a fails *)
Theorem encaps_disabled_fails a p rs r ctr : (forall r s, In (r, s) (p_keys p) -> ~ In a r) -> In r rs -> In a r ->
  fst (encaps_rights p rs ctr) = RErr.
Proof.
  intros Hp Hr Ha. unfold encaps_rights.
  assert (H : all_rights_keys p rs = RErr).
  { induction rs as [|r0 rs IH]; [destruct Hr|]. cbn. destruct Hr as [->|Hr].
    - destruct (rlookup r (p_keys p)) eqn:E; [|reflexivity]. exfalso. eapply Hp; [apply rlookup_In; exact E|exact Ha].
    - destruct (rlookup r0 (p_keys p)); [|reflexivity]. rewrite (IH Hr). reflexivity. }
  rewrite H. reflexivity.
Qed.
Print Assumptions update_msk_dis.
Print Assumptions mpk_unpublished.
Print Assumptions encaps_disabled_fails.
