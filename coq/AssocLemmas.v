(* Prototype proofs (scratch): association-list and restrict lemmas *)
From Coq Require Import List NArith Bool Arith Lia Permutation.
Require Import Policy Structure SelProofs GoodProofs.
Import ListNotations.

Lemma str_eqb_eq : forall a b, str_eqb a b = true <-> a = b.
Proof.
  induction a as [|x a IH]; intros [|y b]; cbn; split; intros H; try reflexivity; try discriminate.
  - apply andb_true_iff in H. destruct H as [H1 H2]. apply N.eqb_eq in H1. apply IH in H2. subst. reflexivity.
  - inversion H; subst. apply andb_true_iff. split; [apply N.eqb_refl|apply IH; reflexivity].
Qed.
Lemma str_eqb_refl a : str_eqb a a = true. Proof. apply str_eqb_eq. reflexivity. Qed.
Lemma str_eqb_neq a b : str_eqb a b = false <-> a <> b.
Proof. split; intros H.
  - intros E. apply str_eqb_eq in E. congruence.
  - destruct (str_eqb a b) eqn:E; [apply str_eqb_eq in E; contradiction|reflexivity]. Qed.

Section Assoc.
  Context {A : Type}.
  Implicit Types (l : list (str * A)).

  Lemma alookup_In k v l : alookup k l = Some v -> In (k, v) l.
  Proof.
    induction l as [|[k' v'] l IH]; cbn; [discriminate|].
    destruct (str_eqb k k') eqn:E.
    - intros H. inversion H; subst. apply str_eqb_eq in E. subst. left. reflexivity.
    - intros H. right. apply IH. exact H.
  Qed.
  Lemma In_alookup k v l : NoDup (map fst l) -> In (k, v) l -> alookup k l = Some v.
  Proof.
    induction l as [|[k' v'] l IH]; cbn; intros Hnd Hin; [destruct Hin|].
    inversion Hnd as [|? ? Hk Hnd']; subst.
    destruct Hin as [Heq|Hin].
    - inversion Heq; subst. rewrite str_eqb_refl. reflexivity.
    - destruct (str_eqb k k') eqn:E.
      + apply str_eqb_eq in E. subst. exfalso. apply Hk. apply in_map_iff. exists (k', v). split; [reflexivity|exact Hin].
      + apply IH; assumption.
  Qed.
  Lemma amem_true k l : amem k l = true <-> In k (map fst l).
  Proof.
    unfold amem. split.
    - destruct (alookup k l) eqn:E; [|discriminate]. intros _. apply alookup_In in E. apply in_map_iff. exists (k, a). split; [reflexivity|exact E].
    - intros H. induction l as [|[k' v'] l IH]; cbn in *; [destruct H|].
      destruct (str_eqb k k') eqn:E; [reflexivity|]. destruct H as [H|H]; [subst; rewrite str_eqb_refl in E; discriminate|]. apply IH. exact H.
  Qed.
  Lemma amem_false k l : amem k l = false <-> ~ In k (map fst l).
  Proof. split; intros H.
    - intros Hin. apply amem_true in Hin. congruence.
    - destruct (amem k l) eqn:E; [apply amem_true in E; contradiction|reflexivity]. Qed.
  Lemma ainsert_absent k v l : amem k l = false -> ainsert k v l = l ++ [(k, v)].
  Proof. unfold ainsert, amem. destruct (alookup k l); [discriminate|reflexivity]. Qed.
  Lemma amem_app k l1 l2 : amem k (l1 ++ l2) = amem k l1 || amem k l2.
  Proof.
    destruct (amem k (l1 ++ l2)) eqn:E.
    - apply amem_true in E. rewrite map_app, in_app_iff in E. symmetry. apply orb_true_iff.
      destruct E; [left|right]; apply amem_true; assumption.
    - apply amem_false in E. rewrite map_app, in_app_iff in E. symmetry. apply orb_false_iff.
      split; apply amem_false; tauto.
  Qed.
End Assoc.

(* take_while yields a prefix *)
Lemma take_while_prefix {A} (f : A -> bool) l : exists rest, l = take_while f l ++ rest.
Proof.
  induction l as [|x l IH]; cbn; [exists []; reflexivity|].
  destruct (f x); [|exists (x :: l); reflexivity].
  destruct IH as (rest & IH). exists rest. cbn. rewrite <- IH. reflexivity.
Qed.
Lemma take_while_all {A} (f : A -> bool) l x : In x (take_while f l) -> f x = true.
Proof.
  induction l as [|y l IH]; cbn; [intros []|].
  destruct (f y) eqn:E; [|intros []]. intros [<-|H]; [exact E|apply IH; exact H].
Qed.

Definition names_of (l : list (str * attribute)) := map fst l.
Definition ids_of (l : list (str * attribute)) := map (fun na => a_id (snd na)) l.

(* the attributes a restriction keeps *)
Definition kept (dm : dimension) (n : str) : list (str * attribute) :=
  match dm with
  | Anarchy l => match alookup n l with Some a => [(n, a)] | None => [] end
  | Hierarchy l => match alookup n l with
                   | Some a => take_while (fun p => negb (str_eqb (fst p) n)) l ++ [(n, a)]
                   | None => [] end
  end.

Lemma restrict_kept dm n d' : restrict dm n = Ok d' -> attrs_of d' = kept dm n /\ exists a, alookup n (attrs_of dm) = Some a.
Proof.
  unfold restrict, kept. destruct (alookup n (attrs_of dm)) as [a|] eqn:E; [|discriminate].
  destruct dm as [l|l]; cbn [attrs_of] in *; intros H; inversion H; subst; cbn [attrs_of]; rewrite E.
  - split; [reflexivity|eauto].
  - split; [|eauto]. apply ainsert_absent. apply amem_false. intros Hin.
    apply in_map_iff in Hin. destruct Hin as ([k v] & Hk & Hin). cbn in Hk. subst k.
    apply take_while_all in Hin. cbn in Hin. rewrite str_eqb_refl in Hin. discriminate.
Qed.

Lemma kept_incl dm n : incl (kept dm n) (attrs_of dm).
Proof.
  unfold kept. destruct dm as [l|l]; cbn [attrs_of]; destruct (alookup n l) as [a|] eqn:E; intros x Hx; try destruct Hx.
  - subst. apply alookup_In. exact E.
  - destruct H.
  - apply in_app_iff in Hx. destruct Hx as [Hx|[<-|[]]].
    + destruct (take_while_prefix (fun p => negb (str_eqb (fst p) n)) l) as (rest & Hl). rewrite Hl. apply in_app_iff. left. exact Hx.
    + apply alookup_In. exact E.
Qed.

Lemma kept_ids_NoDup dm n : NoDup (names_of (attrs_of dm)) -> NoDup (ids_of (attrs_of dm)) -> NoDup (ids_of (kept dm n)).
Proof.
  intros Hn Hi. unfold kept. destruct dm as [l|l]; cbn [attrs_of] in *; destruct (alookup n l) as [a|] eqn:E; try constructor; try (intros []); try constructor.
  (* hierarchy: prefix ++ [(n,a)] *)
  destruct (take_while_prefix (fun p => negb (str_eqb (fst p) n)) l) as (rest & Hl).
  set (tw := take_while (fun p => negb (str_eqb (fst p) n)) l) in *.
  assert (Hna : In (n, a) rest).
  { apply alookup_In in E. rewrite Hl in E. apply in_app_iff in E. destruct E as [E|E]; [|exact E].
    apply take_while_all in E. cbn in E. rewrite str_eqb_refl in E. discriminate. }
  unfold ids_of in *. rewrite map_app. cbn.
  rewrite Hl, map_app in Hi.
  apply in_split in Hna. destruct Hna as (r1 & r2 & ->).
  rewrite map_app in Hi. cbn in Hi.
  (* NoDup (A ++ R1 ++ x :: R2) -> NoDup (A ++ [x]) *)
  clear - Hi. induction (map (fun na => a_id (snd na)) tw) as [|y t IH]; cbn in *.
  - constructor; [intros []|constructor].
  - inversion Hi as [|? ? Hy Hi']; subst. constructor.
    + intros Hin. apply Hy. apply in_app_iff in Hin. apply in_app_iff. destruct Hin as [Hin|[<-|[]]]; [left; exact Hin|].
      right. apply in_app_iff. right. left. reflexivity.
    + apply IH. exact Hi'.
Qed.
Print Assumptions kept_ids_NoDup.
