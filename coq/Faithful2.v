(* Prototype proofs (scratch): the attribute step of the parser *)
From Coq Require Import List NArith Bool Arith Lia.
Require Import Policy PolicyProofs ParseTotal ParseFuel Faithful1.
Import ListNotations.

Definition name_char (c : N) : bool := negb (is_meta c) && negb (c =? 58)%N.
Definition good_name (n : str) : Prop :=
  forallb name_char n = true /\ (exists c t, n = c :: t /\ is_ws c = false) /\ RT n.

Lemma ws_not_meta c : is_ws c = true -> is_meta c = false /\ (c =? 58)%N = false.
Proof.
  unfold is_ws, is_meta. intros H.
  destruct (c =? 40)%N eqn:E1; [apply N.eqb_eq in E1; subst; discriminate|].
  destruct (c =? 41)%N eqn:E2; [apply N.eqb_eq in E2; subst; discriminate|].
  destruct (c =? 124)%N eqn:E3; [apply N.eqb_eq in E3; subst; discriminate|].
  destruct (c =? 38)%N eqn:E4; [apply N.eqb_eq in E4; subst; discriminate|].
  destruct (c =? 58)%N eqn:E5; [apply N.eqb_eq in E5; subst; discriminate|].
  split; reflexivity.
Qed.
Definition plain (x : str) : Prop := forallb (fun c => negb (is_meta c) && negb (c =? 58)%N) x = true.
Lemma plain_ws w : ws w -> plain w.
Proof. unfold ws, plain. intros H. apply forallb_forall. intros c Hc. eapply forallb_forall in H; [|exact Hc]. apply ws_not_meta in H. destruct H as [H1 H2]. rewrite H1, H2. reflexivity. Qed.
Lemma plain_name n : good_name n -> plain n. Proof. intros (H & _). exact H. Qed.
Lemma plain_app a b : plain a -> plain b -> plain (a ++ b).
Proof. unfold plain. intros Ha Hb. rewrite forallb_app, Ha, Hb. reflexivity. Qed.
Definition nometa (x : str) : Prop := forallb (fun c => negb (is_meta c)) x = true.
Lemma plain_nometa x : plain x -> nometa x.
Proof. unfold plain, nometa. intros H. apply forallb_forall. intros c Hc. eapply forallb_forall in H; [|exact Hc]. apply andb_true_iff in H. tauto. Qed.
Lemma nometa_app a b : nometa a -> nometa b -> nometa (a ++ b).
Proof. unfold nometa. intros Ha Hb. rewrite forallb_app, Ha, Hb. reflexivity. Qed.
Lemma nometa_sep : nometa [58%N; 58%N]. Proof. reflexivity. Qed.

Lemma split_once_plain x y : plain x -> split_once (x ++ 58%N :: 58%N :: y) = Some (x, y).
Proof.
  unfold plain. induction x as [|c x IH]; intros H; [reflexivity|].
  cbn in H. apply andb_true_iff in H. destruct H as [Hc Hx]. apply andb_true_iff in Hc. destruct Hc as [_ Hc]. apply negb_true_iff in Hc.
  cbn [app split_once]. rewrite Hc. cbn [andb]. rewrite (IH Hx). reflexivity.
Qed.
Lemma split_once_none y : plain y -> split_once y = None.
Proof.
  unfold plain. induction y as [|c y IH]; intros H; [reflexivity|].
  cbn in H. apply andb_true_iff in H. destruct H as [Hc Hy]. apply andb_true_iff in Hc. destruct Hc as [_ Hc]. apply negb_true_iff in Hc.
  cbn [split_once]. rewrite Hc. cbn [andb]. rewrite (IH Hy). reflexivity.
Qed.

Lemma take_attr_app x y : nometa x -> (y = [] \/ exists c y', y = c :: y' /\ is_meta c = true) -> take_attr (x ++ y) = x.
Proof.
  unfold nometa. induction x as [|c x IH]; intros Hx Hy.
  - cbn. destruct Hy as [->|(c & y' & -> & Hc)]; [reflexivity|]. cbn. rewrite Hc. reflexivity.
  - cbn in Hx. apply andb_true_iff in Hx. destruct Hx as [Hc Hx]. apply negb_true_iff in Hc. cbn. rewrite Hc. f_equal. apply IH; assumption.
Qed.

Lemma trim_name_ws n w : good_name n -> ws w -> trim (n ++ w) = n.
Proof. intros (_ & (c & t & -> & Hc) & HRT) Hw. rewrite trim_app_ws_r by exact Hw. apply (trim_lead [] c t ws_nil Hc HRT). Qed.
Lemma trim_ws_name_ws w1 n w2 : good_name n -> ws w1 -> ws w2 -> trim (w1 ++ n ++ w2) = n.
Proof.
  intros Hn H1 H2. rewrite app_assoc, trim_app_ws_r by exact H2.
  destruct Hn as (_ & (c & t & -> & Hc) & HRT). apply trim_lead; [exact H1|exact Hc|]. apply RT_app_l; [exact HRT|discriminate].
Qed.

Lemma qattr_of_printed d n w2 w3 w : good_name d -> good_name n -> ws w2 -> ws w3 -> ws w ->
  qattr_of_str (d ++ w2 ++ [58%N; 58%N] ++ w3 ++ n ++ w) = Ok {| qdim := d; qname := n |}.
Proof.
  intros Hd Hn H2 H3 Hw. unfold qattr_of_str.
  rewrite app_assoc. cbn [app]. rewrite split_once_plain by (apply plain_app; [apply plain_name; exact Hd|apply plain_ws; exact H2]).
  unfold contains_sep. rewrite split_once_none by (apply plain_app; [apply plain_ws; exact H3|apply plain_app; [apply plain_name; exact Hn|apply plain_ws; exact Hw]]).
  destruct Hd as (Hd1 & (cd & td & Ed & Hcd) & Hd3). destruct Hn as (Hn1 & (cn & tn & En & Hcn) & Hn3).
  assert (Hne1 : d ++ w2 <> []) by (subst d; discriminate).
  assert (Hne2 : w3 ++ n ++ w <> []). { subst n. destruct w3; discriminate. }
  destruct (d ++ w2) eqn:E1; [contradiction|]. destruct (w3 ++ n ++ w) eqn:E2; [contradiction|].
  rewrite <- E1, <- E2.
  rewrite trim_name_ws by (try split; eauto).
  rewrite trim_ws_name_ws by (try split; eauto). reflexivity.
Qed.
Print Assumptions qattr_of_printed.
