(* Prototype proofs (scratch): parse_faithful *)
From Coq Require Import List NArith Bool Arith Lia.
Require Import Policy PolicyProofs ParseTotal ParseFuel Faithful1 Faithful2 Faithful3.
Import ListNotations.

Inductive PAtom : policy -> str -> Prop :=
| PA_term d n w1 w2 w3 : good_name d -> good_name n -> ws w1 -> ws w2 -> ws w3 ->
    PAtom (Term (mk d n)) (w1 ++ d ++ w2 ++ [58; 58]%N ++ w3 ++ n)
| PA_group f s w1 w2 : POr f s -> ws w1 -> ws w2 -> PAtom f (w1 ++ [40%N] ++ (s ++ w2) ++ [41%N])
| PA_star w1 w2 w3 : ws w1 -> ws w2 -> ws w3 -> PAtom Broadcast (w1 ++ [40%N] ++ (w2 ++ [42%N] ++ w3) ++ [41%N])
with PAnd : policy -> str -> Prop :=
| PAnd_one f s : PAtom f s -> PAnd f s
| PAnd_more f g s t w : PAtom f s -> ws w -> PAnd g t -> PAnd (Conj f g) (s ++ w ++ 38%N :: 38%N :: t)
with POr : policy -> str -> Prop :=
| POr_one f s : PAnd f s -> POr f s
| POr_more f g s t w : PAnd f s -> ws w -> POr g t -> POr (Disj f g) (s ++ w ++ 124%N :: 124%N :: t).

Scheme PAtom_mind := Minimality for PAtom Sort Prop
  with PAnd_mind := Minimality for PAnd Sort Prop
  with POr_mind := Minimality for POr Sort Prop.
Combined Scheme printed_mutind from PAtom_mind, PAnd_mind, POr_mind.

(* printed strings are balanced, non-empty and end with a non-whitespace character *)
Definition nice (s : str) : Prop := bal s /\ s <> [] /\ RT s.

Lemma good_name_nice n : good_name n -> nice n.
Proof. intros Hn. pose proof Hn as (H1 & (c & t & -> & Hc) & H3). repeat split; [apply bal_nometa, plain_nometa; exact H1|discriminate|exact H3]. Qed.
Lemma bal_ws w : ws w -> bal w. Proof. intros H. apply bal_nometa, plain_nometa, plain_ws. exact H. Qed.

Lemma nice_app_r a b : bal a -> nice b -> nice (a ++ b).
Proof. intros Ha (Hb1 & Hb2 & Hb3). repeat split; [apply bal_app; assumption| |apply RT_app_l; assumption].
  intros H. apply app_eq_nil in H. destruct H. contradiction. Qed.

Lemma printed_nice : (forall f s, PAtom f s -> nice s) /\ (forall f s, PAnd f s -> nice s) /\ (forall f s, POr f s -> nice s).
Proof.
  apply printed_mutind.
  - intros d n w1 w2 w3 Hd Hn H1 H2 H3.
    apply nice_app_r; [apply bal_ws; exact H1|]. apply nice_app_r; [apply good_name_nice; exact Hd|].
    apply nice_app_r; [apply bal_ws; exact H2|]. apply nice_app_r; [apply bal_nometa; reflexivity|].
    apply nice_app_r; [apply bal_ws; exact H3|]. apply good_name_nice. exact Hn.
  - intros f s w1 w2 _ (Hb & _ & _) H1 H2.
    apply nice_app_r; [apply bal_ws; exact H1|]. repeat split.
    + apply bal_group. apply bal_app; [exact Hb|apply bal_ws; exact H2].
    + discriminate.
    + rewrite app_assoc. apply RT_app_nonws. reflexivity.
  - intros w1 w2 w3 H1 H2 H3.
    apply nice_app_r; [apply bal_ws; exact H1|]. repeat split.
    + apply bal_group. apply bal_app; [apply bal_ws; exact H2|]. apply bal_app; [apply bal_nometa; reflexivity|apply bal_ws; exact H3].
    + discriminate.
    + rewrite app_assoc. apply RT_app_nonws. reflexivity.
  - intros f s _ H. exact H.
  - intros f g s t w _ (Hs & _ & _) Hw _ Ht.
    apply nice_app_r; [exact Hs|]. apply nice_app_r; [apply bal_ws; exact Hw|].
    change (38%N :: 38%N :: t) with ([38%N; 38%N] ++ t). apply nice_app_r; [apply bal_op; reflexivity|exact Ht].
  - intros f s _ H. exact H.
  - intros f g s t w _ (Hs & _ & _) Hw _ Ht.
    apply nice_app_r; [exact Hs|]. apply nice_app_r; [apply bal_ws; exact Hw|].
    change (124%N :: 124%N :: t) with ([124%N; 124%N] ++ t). apply nice_app_r; [apply bal_op; reflexivity|exact Ht].
Qed.

Definition tail_or (r : str) : Prop := r = [] \/ exists w r2, ws w /\ r = w ++ 124%N :: 124%N :: r2.
Lemma tail_or_ok r : tail_or r -> tail_ok r.
Proof. intros [->|(w & r2 & Hw & ->)]; [left; reflexivity|right; exists w, 124%N, (124%N :: r2); repeat split; assumption]. Qed.

Definition QAtom (f : policy) (s : str) : Prop :=
  forall r q fu, tail_ok r -> RT (s ++ r) -> (length (s ++ r) < S fu)%nat ->
  exists p, (forall env, eval env p = eval env f) /\ parse_fuel true (S fu) (s ++ r) q = parse_fuel true fu r (q ++ [p]).
Definition QAnd (g : policy) (t : str) : Prop :=
  forall r q fu, tail_or r -> RT (t ++ r) -> (length (t ++ r) < fu)%nat ->
  exists ps fu', ps <> [] /\ (forall env, forallb (eval env) ps = eval env g) /\ (length r < fu')%nat /\
                 parse_fuel true fu (t ++ r) q = parse_fuel true fu' r (q ++ ps).
Definition QOr (f : policy) (s : str) : Prop :=
  forall fu, RT s -> (length s < fu)%nat -> exists p, parse_fuel true fu s [] = Ok p /\ forall env, eval env p = eval env f.

Lemma faithful_mutual : (forall f s, PAtom f s -> QAtom f s) /\ (forall f s, PAnd f s -> QAnd f s) /\ (forall f s, POr f s -> QOr f s).
Proof.
  apply printed_mutind.
  - (* term *)
    intros d n w1 w2 w3 Hd Hn H1 H2 H3 r q fu Hr HRT Hlen.
    exists (Term (mk d n)). split; [reflexivity|].
    rewrite <- !app_assoc in *. apply step_term; assumption.
  - (* group *)
    intros f s w1 w2 HP IH H1 H2 r q fu Hr HRT Hlen.
    destruct (proj2 (proj2 printed_nice) _ _ HP) as (Hb & Hne & HRTs).
    rewrite <- !app_assoc in HRT, Hlen. rewrite <- !app_assoc.
    destruct fu as [|fu]. { rewrite !app_length in Hlen. cbn in Hlen. lia. }
    destruct (IH (S fu) HRTs) as (p & Hp & Hev). { rewrite !app_length in Hlen. cbn in Hlen. lia. }
    exists p. split; [exact Hev|].
    replace (w1 ++ [40%N] ++ s ++ w2 ++ [41%N] ++ r) with (w1 ++ [40%N] ++ (s ++ w2) ++ [41%N] ++ r) by (rewrite <- !app_assoc; reflexivity).
    apply step_group.
    + apply bal_app; [exact Hb|apply bal_ws; exact H2].
    + exact H1.
    + rewrite <- !app_assoc. exact HRT.
    + rewrite parse_fuel_trail_ws by exact H2. exact Hp.
  - (* star *)
    intros w1 w2 w3 H1 H2 H3 r q fu Hr HRT Hlen.
    exists Broadcast. split; [reflexivity|].
    destruct fu as [|fu]. { rewrite !app_length in Hlen. cbn in Hlen. lia. }
    rewrite <- !app_assoc in HRT. rewrite <- !app_assoc.
    replace (w1 ++ [40%N] ++ w2 ++ [42%N] ++ w3 ++ [41%N] ++ r) with (w1 ++ [40%N] ++ (w2 ++ [42%N] ++ w3) ++ [41%N] ++ r) by (rewrite <- !app_assoc; reflexivity).
    apply step_group.
    + apply bal_app; [apply bal_ws; exact H2|]. apply bal_app; [apply bal_nometa; reflexivity|apply bal_ws; exact H3].
    + exact H1.
    + rewrite <- !app_assoc. exact HRT.
    + apply step_star; assumption.
  - (* and: single atom *)
    intros f s HA IH r q fu Hr HRT Hlen.
    destruct fu as [|fu]; [lia|].
    destruct (IH r q fu (tail_or_ok _ Hr) HRT Hlen) as (p & Hev & Hp).
    exists [p], fu. repeat split; [discriminate|intros env; cbn; rewrite andb_true_r; apply Hev| |exact Hp].
    destruct (proj1 printed_nice _ _ HA) as (_ & Hne & _).
    rewrite app_length in Hlen. destruct s; [contradiction|cbn in Hlen; lia].
  - (* and: atom && rest *)
    intros f g s t w HA IHA Hw HT IHT r q fu Hr HRT Hlen.
    rewrite <- !app_assoc in HRT, Hlen. cbn [app] in HRT, Hlen.
    destruct fu as [|fu]; [lia|].
    destruct (proj1 printed_nice _ _ HA) as (_ & Hnes & _).
    destruct (IHA (w ++ 38%N :: 38%N :: t ++ r) q fu) as (p & Hev & Hp).
    { right. exists w, 38%N, (38%N :: t ++ r). repeat split. exact Hw. }
    { exact HRT. } { exact Hlen. }
    assert (Hls : (1 <= length s)%nat) by (destruct s; [contradiction|cbn; lia]).
    destruct fu as [|fu]. { rewrite !app_length in Hlen. cbn in Hlen. lia. }
    assert (HRT2 : RT (w ++ 38%N :: 38%N :: t ++ r)). { apply (RT_app_r s); [exact HRT|]. destruct w; discriminate. }
    assert (HRT3 : RT (t ++ r)).
    { replace (w ++ 38%N :: 38%N :: t ++ r) with ((w ++ [38%N; 38%N]) ++ t ++ r) in HRT2 by (rewrite <- app_assoc; reflexivity).
      apply (RT_app_r _ _ HRT2). destruct (proj1 (proj2 printed_nice) _ _ HT) as (_ & Hnet & _). intros H. apply app_eq_nil in H. destruct H. contradiction. }
    destruct (IHT r (q ++ [p]) fu Hr HRT3) as (ps & fu' & Hne & Hev2 & Hlen2 & Hp2).
    { rewrite ?app_length in *. cbn [length] in *. rewrite ?app_length in *. lia. }
    exists (p :: ps), fu'. repeat split.
    + discriminate.
    + intros env. cbn. rewrite Hev, Hev2. reflexivity.
    + exact Hlen2.
    + rewrite <- !app_assoc. cbn [app]. rewrite Hp.
      destruct (q ++ [p]) as [|q0 q'] eqn:Eq; [destruct q; discriminate|].
      rewrite step_and by assumption. rewrite Hp2. rewrite <- Eq, <- app_assoc. reflexivity.
  - (* or: single conjunction *)
    intros f s _ IH fu HRT Hlen.
    destruct (IH [] [] fu (or_introl eq_refl)) as (ps & fu' & Hne & Hev & Hlen' & Hp).
    { rewrite app_nil_r. exact HRT. } { rewrite app_nil_r. exact Hlen. }
    rewrite app_nil_r in Hp. cbn [app] in Hp.
    destruct ps as [|p0 ps]; [contradiction|]. destruct fu' as [|fu']; [cbn in Hlen'; lia|].
    exists (conjugate p0 ps). split; [rewrite Hp; apply step_end|].
    intros env. rewrite conjugate_sound. apply (Hev env).
  - (* or: conjunction || rest *)
    intros f g s t w HA IHA Hw HT IHT fu HRT Hlen.
    destruct (proj1 (proj2 printed_nice) _ _ HA) as (_ & Hnes & _).
    destruct (proj2 (proj2 printed_nice) _ _ HT) as (_ & Hnet & HRTt).
    destruct (IHA (w ++ 124%N :: 124%N :: t) [] fu) as (ps & fu' & Hne & Hev & Hlen' & Hp).
    { right. exists w, t. split; [exact Hw|reflexivity]. } { exact HRT. } { exact Hlen. }
    cbn [app] in Hp. destruct ps as [|p0 ps]; [contradiction|].
    destruct fu' as [|fu']; [lia|].
    assert (HRT2 : RT (w ++ 124%N :: 124%N :: t)). { apply (RT_app_r s); [exact HRT|]. destruct w; discriminate. }
    destruct (IHT fu' HRTt) as (ph & Hph & Hevh).
    { rewrite !app_length in Hlen'. cbn in Hlen'. lia. }
    exists (por (conjugate p0 ps) ph). split.
    + rewrite Hp. rewrite step_or by assumption. rewrite Hph. reflexivity.
    + intros env. rewrite por_sound, conjugate_sound. cbn [eval]. rewrite <- (Hev env), Hevh. reflexivity.
Qed.

(* The repaired parser is logically faithful on every printing of a formula:
   arbitrary whitespace (also trailing), redundant parentheses, && binds tighter than ||. *)
Theorem parse_faithful f s w : POr f s -> ws w ->
  exists p, parse true (s ++ w) = Ok p /\ forall env, eval env p = eval env f.
Proof.
  intros HP Hw. unfold parse. rewrite parse_fuel_trail_ws by exact Hw.
  destruct (proj2 (proj2 printed_nice) _ _ HP) as (_ & _ & HRT).
  apply (proj2 (proj2 faithful_mutual) _ _ HP); [exact HRT|]. rewrite app_length. lia.
Qed.

Corollary parse_dnf_faithful f s w : POr f s -> ws w ->
  exists d, parse_dnf true (s ++ w) = Ok d /\ forall env, eval_dnf env d = eval env f.
Proof.
  intros HP Hw. destruct (parse_faithful f s w HP Hw) as (p & Hp & Hev).
  exists (to_dnf p). unfold parse_dnf. rewrite Hp. split; [reflexivity|]. intros env. rewrite dnf_equiv. apply Hev.
Qed.
Print Assumptions parse_dnf_faithful.
