(* End-to-end statements of C01 / C02 on the key-management state machine, part 5:
   when do OKeygen / OEncaps succeed on a master key that is in sync with its structure (E2E4.v)?
     - the rights of a user policy are rights of the structure (complementary_rights_in_omega), so
       OKeygen succeeds as soon as the policy parses and names existing attributes (keygen_succeeds);
     - OEncaps under the snapshot of that master key succeeds iff every targeted right is an ENABLED right of
       the structure (encaps_ok_iff_enabled), i.e. iff every attribute named by every clause exists and is
       enabled (clause_right_enabled_iff, encaps_succeeds).
   Part 6 (E2E6.v) combines this with C01_complete / C02_sound. *)
From Coq Require Import List NArith Bool Arith Lia Permutation.
From CC Require Import Policy Structure Keys KeysMachine SelProofs GoodProofs AssocLemmas
                       CoverProofs1 CoverProofs2 CoverPolicy DisabledProofs WfProofs
                       KInv1 KInv3 KInv4 KInv5 KInv6 KInv7 KInv10 RightsInj E2E1 E2E4.
Import ListNotations.
Local Open Scope N_scope.

(* ---------------------------------------------------------------- user rights are rights of the structure *)
Lemma good_transfer st NL p : wf_structure st -> sub_named st NL ->
  good (map snd NL) p -> good (map snd (dims st)) p.
Proof.
  intros (Hn & Hnames & Hids) (HnNL & Hsub) (G1 & G2 & G3).
  assert (Hloc : forall i, In i p -> exists k d' dm, In (k, d') NL /\ In i (dim_ids d') /\ In (k, dm) (dims st) /\ In i (dim_ids dm)).
  { intros i Hi. specialize (G2 i Hi). unfold all_ids in G2. apply in_flat_map in G2. destruct G2 as (d' & Hd' & Hid').
    apply in_map_iff in Hd'. destruct Hd' as ([k d''] & E & HinNL). cbn in E. subst d''.
    destruct (Hsub k d' HinNL) as (dm & Hdm & Hinc & _). exists k, d', dm. repeat split; [exact HinNL|exact Hid'|apply alookup_In; exact Hdm|apply Hinc; exact Hid']. }
  split; [exact G1|]. split.
  - intros i Hi. destruct (Hloc i Hi) as (k & d' & dm & _ & _ & Hdm & Hidm). unfold all_ids. apply in_flat_map. exists dm.
    split; [apply in_map_iff; exists (k, dm); split; [reflexivity|exact Hdm]|exact Hidm].
  - intros d i j Hd Hi Hj Hid Hjd. apply in_map_iff in Hd. destruct Hd as ([kd d0] & E & Hd). cbn in E. subst d0.
    destruct (Hloc i Hi) as (ki & di' & dmi & HiNL & Hidi' & Hdmi & Hidmi).
    destruct (Hloc j Hj) as (kj & dj' & dmj & HjNL & Hjdj' & Hdmj & Hjdmj).
    assert (Eki : ki = kd).
    { destruct (list_eq_dec N.eq_dec ki kd) as [E|Hne]; [exact E|exfalso]. eapply (ids_disjoint_gen (dims st) Hids Hn ki dmi kd d i); eassumption. }
    assert (Ekj : kj = kd).
    { destruct (list_eq_dec N.eq_dec kj kd) as [E|Hne]; [exact E|exfalso]. eapply (ids_disjoint_gen (dims st) Hids Hn kj dmj kd d j); eassumption. }
    subst ki kj.
    assert (Epair : (kd, di') = (kd, dj')) by (eapply (CoverProofs2.NoDup_map_inj_in fst NL); [exact HnNL|exact HiNL|exact HjNL|reflexivity]).
    inversion Epair; subst dj'. eapply (G3 di'); [apply in_map_iff; exists (kd, di'); split; [reflexivity|exact HiNL]|exact Hi|exact Hj|exact Hidi'|exact Hjdj'].
Qed.

Lemma complementary_points_in_omega st U ps p : wf_structure st -> NoDup (map qdim U) ->
  complementary_points st U = Ok ps -> In p ps -> In (right_of_point p) (map fst (omega st)).
Proof.
  intros Hwf HndU Hps Hp.
  destruct (complementary_points_spec _ _ _ Hps) as (sem & Hsem & Hin).
  destruct (semantic_space_spec _ _ _ _ Hsem HndU (fun _ _ => eq_refl)) as (S' & -> & Hrel). cbn [app] in *.
  fold (sem_rel st U S') in Hrel.
  pose proof (NL_sub_named _ _ _ Hwf HndU Hrel) as Hsub.
  pose proof (sub_named_NoDup _ _ Hwf Hsub) as HndNL.
  apply Hin in Hp. rewrite <- map_app in Hp.
  pose proof (sel_good _ _ HndNL Hp) as Hg.
  pose proof (good_transfer _ _ _ Hwf Hsub Hg) as Hg'.
  destruct Hwf as (_ & _ & Hids).
  destruct (good_sel _ Hids _ Hg') as (p' & Hsel & Hperm).
  rewrite omega_keys. apply in_map_iff. exists p'. split; [apply perm_sort_eq; exact Hperm|apply combine_sel; exact Hsel].
Qed.

Theorem complementary_rights_in_omega st up rs : wf_structure st ->
  (forall U, In U (to_dnf up) -> NoDup (map qdim U)) -> complementary_rights st up = Ok rs ->
  forall r, In r rs -> In r (map fst (omega st)).
Proof.
  intros Hwf HU Hrs r Hr. unfold complementary_rights in Hrs.
  destruct (collect_clauses st (to_dnf up)) as [ps| | |] eqn:Ec; try discriminate. inversion Hrs; subst; clear Hrs.
  apply (proj1 (dedup_In _ _)) in Hr. apply in_map_iff in Hr. destruct Hr as (p & <- & Hp).
  apply (collect_clauses_spec _ _ _ Ec) in Hp. destruct Hp as (U & psU & HinU & HcU & HpU).
  eapply complementary_points_in_omega; [exact Hwf|apply HU; exact HinU|exact HcU|exact HpU].
Qed.
Print Assumptions complementary_rights_in_omega.

(* ---------------------------------------------------------------- names exist -> the rights are computed *)
Definition names_exist (st : structure) (p : policy) : Prop :=
  forall C q, In C (to_dnf p) -> In q C -> exists a, get_attribute st q = Some a.

Lemma semantic_space_ok st : forall U acc, (forall q, In q U -> exists a, get_attribute st q = Some a) ->
  exists sem, semantic_space st U acc = Ok sem.
Proof.
  induction U as [|u U IH]; intros acc H; cbn [semantic_space]; [eauto|].
  destruct (H u (or_introl eq_refl)) as (a & Ha). unfold get_attribute in Ha.
  destruct (alookup (qdim u) (dims st)) as [dm|]; [|discriminate]. unfold restrict. rewrite Ha.
  destruct dm; apply IH; intros q Hq; apply H; right; exact Hq.
Qed.
Lemma complementary_rights_ok st up : names_exist st up -> exists rs, complementary_rights st up = Ok rs.
Proof.
  unfold names_exist, complementary_rights. intros H.
  assert (G : exists ps, collect_clauses st (to_dnf up) = Ok ps).
  { induction (to_dnf up) as [|U dnf IH]; [exists []; reflexivity|]. cbn [collect_clauses].
    destruct (semantic_space_ok st U [] (fun q Hq => H U q (or_introl eq_refl) Hq)) as (sem & Hsem).
    unfold complementary_points. rewrite Hsem.
    destruct IH as (ps & Hps); [intros C q HC Hq; eapply H; [right; exact HC|exact Hq]|]. rewrite Hps. eauto. }
  destruct G as (ps & ->). eauto.
Qed.

Lemma ids_of_clause_ok st : forall E, (forall q, In q E -> exists a, get_attribute st q = Some a) -> exists ids, ids_of_clause st E = Ok ids.
Proof.
  induction E as [|e E IH]; intros H; cbn [ids_of_clause]; [eauto|]. destruct (H e (or_introl eq_refl)) as (a & ->).
  destruct IH as (ids & ->); [intros q Hq; apply H; right; exact Hq|]. eauto.
Qed.
Lemma associated_rights_ok st ep : names_exist st ep -> exists rs, associated_rights st ep = Ok rs.
Proof.
  unfold names_exist, associated_rights. intros H.
  assert (G : exists rs, assoc_clauses st (to_dnf ep) = Ok rs).
  { induction (to_dnf ep) as [|E dnf IH]; [exists []; reflexivity|]. cbn [assoc_clauses].
    destruct (ids_of_clause_ok st E (fun q Hq => H E q (or_introl eq_refl) Hq)) as (ids & ->).
    destruct IH as (rs & ->); [intros C q HC Hq; eapply H; [right; exact HC|exact Hq]|]. eauto. }
  destruct G as (rs & ->). eauto.
Qed.

(* ---------------------------------------------------------------- OKeygen on a synced master key *)
Theorem keygen_succeeds_rights s UP up rs : reach s -> synced (st_msk s) ->
  parse true UP = Ok up -> (forall U, In U (to_dnf up) -> NoDup (map qdim U)) ->
  complementary_rights (m_st (st_msk s)) up = Ok rs ->
  snd (step fixed s (OKeygen UP)) = ObOk.
Proof.
  intros Hr [S1 _] Hp HU Hrs. apply (keygen_ok_iff s UP Hr). exists rs. split.
  - unfold usk_rights. cbn [fx_parse fixed KeysMachine.fx_all]. rewrite Hp, Hrs. reflexivity.
  - unfold rights_known. apply forallb_forall. intros r Hin. apply S1. apply in_omega_map_key. apply rmem_true. apply omega_map_keys.
    eapply complementary_rights_in_omega; [apply (wfb_reach s Hr)|exact HU|exact Hrs|exact Hin].
Qed.
Theorem keygen_succeeds s UP up : reach s -> synced (st_msk s) ->
  parse true UP = Ok up -> (forall U, In U (to_dnf up) -> NoDup (map qdim U)) -> names_exist (m_st (st_msk s)) up ->
  snd (step fixed s (OKeygen UP)) = ObOk.
Proof.
  intros Hr Hs Hp HU Hn. destruct (complementary_rights_ok _ _ Hn) as (rs & Hrs). eapply keygen_succeeds_rights; eassumption.
Qed.
Print Assumptions keygen_succeeds.

(* ---------------------------------------------------------------- OEncaps under the snapshot of a synced master key *)
Theorem encaps_ok_iff_enabled s j EP m : NoDup (map fst (m_secrets m)) -> synced m ->
  nth_error (st_mpks s) j = Some (mk_mpk m) ->
  (snd (step fixed s (OEncaps j EP)) = ObOk <->
   exists rs, enc_rights fixed (m_st m) EP = ROk rs /\ forall r, In r rs -> exists h, In (r, (h, true)) (omega_map (m_st m))).
Proof.
  intros Hnd [S1 S2] Hn. rewrite encaps_ok_iff.
  assert (Hpub : forall r, rmem r (p_keys (mk_mpk m)) = true <-> exists h, In (r, (h, true)) (omega_map (m_st m))).
  { intros r. rewrite published_rmem. unfold published. split.
    - intros (sk & Hl). apply (mk_mpk_published m r sk Hnd) in Hl. destruct Hl as (older & Hl).
      assert (Hm : rmem r (m_secrets m) = true) by (unfold rmem; rewrite Hl; reflexivity).
      apply S1 in Hm. destruct Hm as ([h e] & Hin). destruct (S2 r h e Hin) as (sk' & older' & Hl'). rewrite Hl in Hl'. inversion Hl'; subst.
      exists h. exact Hin.
    - intros (h & Hin). destruct (S2 r h true Hin) as (sk & older & Hl). exists sk. apply (mk_mpk_published m r sk Hnd). eauto. }
  split.
  - intros (pk & rs & Hn' & Hrs & Hf). rewrite Hn in Hn'. inversion Hn'; subst pk. cbn [p_st mk_mpk] in Hrs. exists rs. split; [exact Hrs|].
    intros r Hr. rewrite forallb_forall in Hf. apply Hpub. apply Hf. exact Hr.
  - intros (rs & Hrs & Hall). exists (mk_mpk m), rs. split; [exact Hn|]. split; [exact Hrs|]. apply forallb_forall. intros r Hr. apply Hpub. apply Hall. exact Hr.
Qed.
Print Assumptions encaps_ok_iff_enabled.

(* ---------------------------------------------------------------- ... in terms of attribute names *)
Definition clause_enabled (st : structure) (E : list qattr) : Prop :=
  forall q, In q E -> exists a, get_attribute st q = Some a /\ a_enc a = true.

Lemma id_rel_get st e i : id_rel st e i <-> exists a, get_attribute st e = Some a /\ a_id a = i.
Proof.
  unfold id_rel, attr_of, get_attribute. split.
  - intros (dm & a & (H1 & H2) & H3). rewrite H1. exists a. split; assumption.
  - intros (a & H & H3). destruct (alookup (qdim e) (dims st)) as [dm|] eqn:Ed; [|discriminate]. exists dm, a. repeat split; assumption.
Qed.
Lemma get_attribute_In st e a : get_attribute st e = Some a ->
  exists dm, In (qdim e, dm) (dims st) /\ In (qname e, a) (attrs_of dm).
Proof.
  unfold get_attribute. destruct (alookup (qdim e) (dims st)) as [dm|] eqn:Ed; [|discriminate]. intros H.
  exists dm. split; apply alookup_In; assumption.
Qed.

Lemma clause_ids_good st E ids : wf_structure st -> NoDup (map qdim E) -> Forall2 (id_rel st) E ids ->
  good (map snd (dims st)) ids.
Proof.
  intros Hwf HndE Hids. pose proof Hwf as (Hn & Hnames & Hidsnd).
  assert (Hfun : forall e i j, id_rel st e i -> id_rel st e j -> i = j).
  { intros e i j (dm1 & a1 & (H1 & H2) & <-) (dm2 & a2 & (H3 & H4) & <-). rewrite H1 in H3. inversion H3; subst. rewrite H2 in H4. inversion H4; subst. reflexivity. }
  assert (Hloc : forall e i, id_rel st e i -> exists dm, In (qdim e, dm) (dims st) /\ In i (dim_ids dm)).
  { intros e i (dm & a & (H1 & H2) & <-). exists dm. split; [apply alookup_In; exact H1|].
    apply in_map_iff. exists (qname e, a). split; [reflexivity|apply alookup_In; exact H2]. }
  repeat split.
  - clear Hloc. induction Hids as [|e i E ids Hei Htl IH]; [constructor|].
    cbn in HndE. inversion HndE as [|? ? He HndE']; subst. constructor; [|apply IH; exact HndE'].
    intros Hin. destruct (CoverProofs2.Forall2_In_r _ _ _ _ Htl Hin) as (e2 & He2 & Hrel2).
    destruct Hei as (dm1 & a1 & (Hd1 & Ha1) & <-). destruct Hrel2 as (dm2 & a2 & (Hd2 & Ha2) & Eid).
    assert (qdim e <> qdim e2). { intros Eq. apply He. rewrite Eq. apply in_map. exact He2. }
    eapply (ids_disjoint st (qdim e) dm1 (qdim e2) dm2 (a_id a1)); try eassumption.
    + rewrite dim_ids_ids_of. unfold ids_of. apply in_map_iff. exists (qname e, a1). split; [reflexivity|apply alookup_In; exact Ha1].
    + rewrite <- Eid. rewrite dim_ids_ids_of. unfold ids_of. apply in_map_iff. exists (qname e2, a2). split; [reflexivity|apply alookup_In; exact Ha2].
  - intros i Hi. destruct (CoverProofs2.Forall2_In_r _ _ _ _ Hids Hi) as (e & He & Hrel). destruct (Hloc e i Hrel) as (dm & Hdm & Hidm).
    unfold all_ids. apply in_flat_map. exists dm. split; [apply in_map_iff; exists (qdim e, dm); split; [reflexivity|exact Hdm]|exact Hidm].
  - intros d i j Hd Hi Hj Hid Hjd. apply in_map_iff in Hd. destruct Hd as ([kd d0] & E0 & Hd). cbn in E0. subst d0.
    destruct (CoverProofs2.Forall2_In_r _ _ _ _ Hids Hi) as (e1 & He1 & Hr1). destruct (CoverProofs2.Forall2_In_r _ _ _ _ Hids Hj) as (e2 & He2 & Hr2).
    destruct (Hloc e1 i Hr1) as (dm1 & Hdm1 & Hi1). destruct (Hloc e2 j Hr2) as (dm2 & Hdm2 & Hj2).
    assert (E1 : qdim e1 = kd).
    { destruct (list_eq_dec N.eq_dec (qdim e1) kd) as [Eq0|Hne]; [exact Eq0|exfalso]. eapply (ids_disjoint_gen (dims st) Hidsnd Hn (qdim e1) dm1 kd d i); eassumption. }
    assert (E2 : qdim e2 = kd).
    { destruct (list_eq_dec N.eq_dec (qdim e2) kd) as [Eq0|Hne]; [exact Eq0|exfalso]. eapply (ids_disjoint_gen (dims st) Hidsnd Hn (qdim e2) dm2 kd d j); eassumption. }
    assert (e1 = e2) by (eapply (CoverProofs2.NoDup_map_inj_in qdim E); [exact HndE|exact He1|exact He2|congruence]).
    subst e2. eapply Hfun; eassumption.
Qed.

Lemma asel_In ds l : asel ds l -> forall att, In att l -> exists d n, In d ds /\ In (n, att) (attrs_of d).
Proof.
  induction 1 as [|d ds l _ IH|d ds l [n a0] Hna _ IH]; intros att Hatt.
  - destruct Hatt.
  - destruct (IH att Hatt) as (d' & n & Hd' & Hn). exists d', n. split; [right; exact Hd'|exact Hn].
  - destruct Hatt as [<-|Hatt]; [exists d, n; split; [left; reflexivity|exact Hna]|].
    destruct (IH att Hatt) as (d' & n' & Hd' & Hn'). exists d', n'. split; [right; exact Hd'|exact Hn'].
Qed.

(* the right of a clause (one attribute per dimension) is an enabled right iff all its attributes are enabled *)
Theorem clause_right_enabled_iff st E ids : wfb st -> NoDup (map qdim E) -> ids_of_clause st E = Ok ids ->
  ((exists h, In (right_of_point ids, (h, true)) (omega st)) <-> clause_enabled st E).
Proof.
  intros Hwfb HndE Hids. pose proof (proj1 Hwfb) as Hwf. apply ids_of_clause_spec in Hids. split.
  - intros (h & Hin) q Hq. unfold omega in Hin. apply in_map_iff in Hin. destruct Hin as ([[ids' h'] e'] & E0 & Hc). inversion E0; subst h' e'; clear E0.
    assert (Hperm : Permutation ids' ids) by (apply sort_eq_iff_perm; assumption).
    destruct (CoverProofs2.Forall2_In_l _ _ _ _ Hids Hq) as (i & Hi & Hrel). apply id_rel_get in Hrel. destruct Hrel as (a & Hga & Hai).
    exists a. split; [exact Hga|].
    assert (Hi' : In i ids') by (eapply Permutation_in; [apply Permutation_sym; exact Hperm|exact Hi]).
    destruct (combine_enc i _ _ _ _ Hc Hi') as (d & n & att & Hd & Hn & Hid & He).
    apply in_map_iff in Hd. destruct Hd as ([kd d0] & E0 & Hd). cbn in E0. subst d0.
    destruct (get_attribute_In _ _ _ Hga) as (dm & Hdm & Ha).
    destruct (wfb_id_unique st kd d n att (qdim q) dm (qname q) a Hwfb Hd Hn Hdm Ha) as (_ & _ & _ & ->); [congruence|]. apply He. reflexivity.
  - intros Hen. pose proof (clause_ids_good st E ids Hwf HndE Hids) as Hg.
    destruct Hwf as (_ & _ & Hidsnd). destruct (good_sel _ Hidsnd _ Hg) as (p & Hsel & Hperm).
    destruct (sel_asel _ _ Hsel) as (l & Hasel & ->).
    exists (existsb a_hyb l). replace (right_of_point ids) with (right_of_point (map a_id l)) by (apply perm_sort_eq; exact Hperm).
    replace true with (forallb a_enc l); [apply omega_complete; exact Hasel|].
    apply forallb_forall. intros att Hatt. destruct (asel_In _ _ Hasel att Hatt) as (d & n & Hd & Hn).
    apply in_map_iff in Hd. destruct Hd as ([kd d0] & E0 & Hd). cbn in E0. subst d0.
    assert (Hi : In (a_id att) ids) by (eapply Permutation_in; [exact Hperm|apply in_map; exact Hatt]).
    destruct (CoverProofs2.Forall2_In_r _ _ _ _ Hids Hi) as (q & Hq & Hrel). apply id_rel_get in Hrel. destruct Hrel as (a & Hga & Hai).
    destruct (Hen q Hq) as (a' & Hga' & Henc). rewrite Hga in Hga'. inversion Hga'; subst a'.
    destruct (get_attribute_In _ _ _ Hga) as (dm & Hdm & Ha).
    destruct (wfb_id_unique st kd d n att (qdim q) dm (qname q) a Hwfb Hd Hn Hdm Ha) as (_ & _ & _ & ->); [congruence|]. exact Henc.
Qed.
Print Assumptions clause_right_enabled_iff.

(* OEncaps succeeds iff every attribute named by the policy exists and is enabled *)
Theorem encaps_succeeds_iff s j EP ep m : wfb (m_st m) -> NoDup (map fst (m_secrets m)) -> synced m ->
  nth_error (st_mpks s) j = Some (mk_mpk m) ->
  parse true EP = Ok ep -> (forall E, In E (to_dnf ep) -> NoDup (map qdim E)) ->
  (snd (step fixed s (OEncaps j EP)) = ObOk <-> forall E, In E (to_dnf ep) -> clause_enabled (m_st m) E).
Proof.
  intros Hwfb Hnd Hs Hn Hp HE. rewrite (encaps_ok_iff_enabled s j EP m Hnd Hs Hn). pose proof (proj1 Hwfb) as Hwf. split.
  - intros (rs & Hrs & Hall) E HEin. apply (enc_rights_parsed _ _ _ _ Hp) in Hrs.
    destruct (associated_rights_spec _ _ _ Hrs) as [A1 _]. destruct (A1 E HEin) as (ids & Hids & Hin).
    apply (clause_right_enabled_iff _ E ids Hwfb (HE E HEin) Hids). destruct (Hall _ Hin) as (h & Hh). exists h. apply omega_map_sub. exact Hh.
  - intros Hen.
    assert (Hnames : names_exist (m_st m) ep).
    { intros C q HC Hq. destruct (Hen C HC q Hq) as (a & Ha & _). eauto. }
    destruct (associated_rights_ok _ _ Hnames) as (rs & Hrs). exists rs. split.
    + unfold enc_rights. cbn [fx_parse fixed KeysMachine.fx_all]. rewrite Hp, Hrs. reflexivity.
    + intros r Hr. destruct (associated_rights_spec _ _ _ Hrs) as [_ A2]. destruct (A2 r Hr) as (E & ids & HEin & Hids & ->).
      destruct (proj2 (clause_right_enabled_iff _ E ids Hwfb (HE E HEin) Hids) (Hen E HEin)) as (h & Hh). exists h. apply (omega_map_In _ _ _ Hwf). exact Hh.
Qed.
Print Assumptions encaps_succeeds_iff.
