(* Prototype (round 0, scratch): token-level model of core/primitives.rs + api.rs, PINNED behaviour
   with a few switches for the planned repairs. *)
From Coq Require Import List NArith Bool Arith Lia.
Require Import Policy Structure.
Import ListNotations.

Record fixes := { fx_ids : bool; fx_rev : bool; fx_prune : bool; fx_rekey_flag : bool;
                  fx_refresh : bool; fx_update : bool; fx_recaps : bool; fx_parse : bool }.

Record secret := { tok : N; s_hyb : bool }.
Definition rightk := list N.
Record msk := { m_users : list N; m_secrets : list (rightk * list (bool * secret)); m_st : structure }.
Record mpk := { p_keys : list (rightk * secret); p_st : structure }.
Record usk := { u_id : option N; u_chains : list (rightk * list secret) }.
Record xenc := { x_hyb : bool; x_entries : list N; x_seed : N }.

Fixpoint rlookup {A} (k : rightk) (l : list (rightk * A)) : option A :=
  match l with [] => None | (k', v) :: t => if list_N_eqb k k' then Some v else rlookup k t end.
Fixpoint rreplace {A} (k : rightk) (v : A) (l : list (rightk * A)) : list (rightk * A) :=
  match l with [] => [] | (k', v') :: t => if list_N_eqb k k' then (k, v) :: t else (k', v') :: rreplace k v t end.
Definition rmem {A} (k : rightk) (l : list (rightk * A)) : bool := match rlookup k l with Some _ => true | None => false end.

Inductive res (A : Type) := ROk (a : A) | RErr.
Arguments ROk {A}. Arguments RErr {A}.

Section K.
  Variable fx : fixes.

  (* omega as a map: later duplicates override (HashMap collect) -- only matters under id collisions *)
  Definition omega_map (st : structure) : list (rightk * (bool * bool)) :=
    fold_left (fun acc '(r, v) => if rmem r acc then rreplace r v acc else acc ++ [(r, v)]) (omega st) [].

  (* update_msk: returns new secrets, counter, ok? *)
  Fixpoint upd_loop (rights : list (rightk * (bool * bool))) (secs : list (rightk * list (bool * secret))) (ctr : N)
    : res (list (rightk * list (bool * secret)) * N) :=
    match rights with
    | [] => ROk (secs, ctr)
    | (r, (hyb, enc)) :: t =>
        match rlookup r secs with
        | Some ((_, s) :: older) =>
            let s' := if hyb then s else {| tok := tok s; s_hyb := false |} in
            upd_loop t (rreplace r ((enc, s') :: older) secs) ctr
        | Some [] => upd_loop t secs ctr   (* unreachable: chains are never empty *)
        | None =>
            if negb enc then RErr
            else upd_loop t (secs ++ [(r, [(true, {| tok := ctr; s_hyb := hyb |})])]) (N.succ ctr)
        end
    end.

  Definition update_msk (m : msk) (ctr : N) : res msk * msk * N :=
    let rights := omega_map (m_st m) in
    let kept := filter (fun rs => rmem (fst rs) rights) (m_secrets m) in
    match upd_loop rights kept ctr with
    | ROk (secs, ctr') => (ROk {| m_users := m_users m; m_secrets := secs; m_st := m_st m |},
                           {| m_users := m_users m; m_secrets := secs; m_st := m_st m |}, ctr')
    | RErr => (RErr, (if fx_update fx then m else {| m_users := m_users m; m_secrets := []; m_st := m_st m |}), ctr)
    end.

  Definition mk_mpk (m : msk) : mpk :=
    {| p_keys := flat_map (fun '(r, ch) => match ch with (true, s) :: _ => [(r, s)] | _ => [] end) (m_secrets m);
       p_st := m_st m |}.

  Definition usk_rights (st : structure) (pol : str) : res (list rightk) :=
    match parse (fx_parse fx) pol with
    | Ok p => match complementary_rights st p with Ok rs => ROk rs | _ => RErr end
    | _ => RErr
    end.
  Definition enc_rights (st : structure) (pol : str) : res (list rightk) :=
    match parse (fx_parse fx) pol with
    | Ok p => match associated_rights st p with Ok rs => ROk rs | _ => RErr end
    | _ => RErr
    end.

  (* rekey, modelled with the validate-first repair (F8); the pinned partial rotation is order dependent *)
  Fixpoint rekey_loop (rs : list rightk) (secs : list (rightk * list (bool * secret))) (ctr : N) :=
    match rs with
    | [] => (secs, ctr)
    | r :: t =>
        match rlookup r secs with
        | Some (((fl, s) :: _) as ch) =>
            let fl' := if fx_rekey_flag fx then fl else true in
            rekey_loop t (rreplace r ((fl', {| tok := ctr; s_hyb := s_hyb s |}) :: ch) secs) (N.succ ctr)
        | _ => rekey_loop t secs ctr
        end
    end.
  Definition rekey (m : msk) (rs : list rightk) (ctr : N) : res msk * N :=
    if forallb (fun r => rmem r (m_secrets m)) rs then
      let '(secs, ctr') := rekey_loop rs (m_secrets m) ctr in
      (ROk {| m_users := m_users m; m_secrets := secs; m_st := m_st m |}, ctr')
    else (RErr, ctr).

  Definition prune (m : msk) (rs : list rightk) : msk :=
    {| m_users := m_users m;
       m_secrets := map (fun '(r, ch) => if existsb (list_N_eqb r) rs then (r, firstn 1 ch) else (r, ch)) (m_secrets m);
       m_st := m_st m |}.

  Fixpoint latest_all (m : msk) (rs : list rightk) : res (list (rightk * list secret)) :=
    match rs with
    | [] => ROk []
    | r :: t => match rlookup r (m_secrets m) with
                | Some ((_, s) :: _) => match latest_all m t with ROk l => ROk ((r, [s]) :: l) | RErr => RErr end
                | _ => RErr
                end
    end.

  Definition keygen (m : msk) (rs : list rightk) (ctr : N) : res (msk * usk) * N :=
    match latest_all m rs with
    | ROk chains => (ROk ({| m_users := ctr :: m_users m; m_secrets := m_secrets m; m_st := m_st m |},
                          {| u_id := Some ctr; u_chains := chains |}), N.succ ctr)
    | RErr => (RErr, ctr)
    end.

  Definition sec_eqb (a b : secret) : bool := (tok a =? tok b)%N && Bool.eqb (s_hyb a) (s_hyb b).

  (* refresh_coordinate_keys for one chain *)
  Fixpoint take_until (first : secret) (mch : list (bool * secret)) : list secret * list (bool * secret) * bool :=
    match mch with
    | [] => ([], [], false)
    | (_, s) :: t => if sec_eqb s first then ([], t, true)
                     else let '(a, rest, found) := take_until first t in (s :: a, rest, found)
    end.
  Fixpoint common (uch : list secret) (mch : list (bool * secret)) : list secret :=
    match uch, mch with
    | u :: ut, (_, s) :: mt => if sec_eqb s u then s :: common ut mt else []
    | _, _ => []
    end.
  Definition refresh_chain (mch : list (bool * secret)) (uch : list secret) : option (list secret) :=
    match uch with
    | [] => None
    | first :: urest =>
        let '(newer, mrest, found) := take_until first mch in
        if found then Some (newer ++ [first] ++ common urest mrest)
        else if fx_prune fx then Some newer
        else Some (newer ++ [first])
    end.

  Definition refresh (m : msk) (u : usk) (keep : bool) : res usk * usk :=
    match u_id u with
    | None => (RErr, u)
    | Some id =>
      if negb (existsb (N.eqb id) (m_users m)) then (RErr, (if fx_refresh fx then u else {| u_id := None; u_chains := u_chains u |}))
      else if keep then
        let chains := flat_map (fun '(r, uch) => match rlookup r (m_secrets m) with
                                                 | Some mch => match refresh_chain mch uch with Some c => [(r, c)] | None => [] end
                                                 | None => [] end) (u_chains u) in
        let u' := {| u_id := Some id; u_chains := chains |} in (ROk u', u')
      else if fx_refresh fx then
        let chains := flat_map (fun '(r, _) => match rlookup r (m_secrets m) with
                                               | Some ((_, s) :: _) => [(r, [s])] | _ => [] end) (u_chains u) in
        let u' := {| u_id := Some id; u_chains := chains |} in (ROk u', u')
      else
        match latest_all m (map fst (u_chains u)) with
        | ROk chains => let u' := {| u_id := Some id; u_chains := chains |} in (ROk u', u')
        | RErr => (RErr, {| u_id := None; u_chains := [] |})
        end
    end.

  Fixpoint all_rights_keys (p : mpk) (rs : list rightk) : res (list secret) :=
    match rs with
    | [] => ROk []
    | r :: t => match rlookup r (p_keys p) with
                | Some s => match all_rights_keys p t with ROk l => ROk (s :: l) | RErr => RErr end
                | None => RErr
                end
    end.
  Definition encaps_rights (p : mpk) (rs : list rightk) (ctr : N) : res xenc * N :=
    match all_rights_keys p rs with
    | ROk ks => (ROk {| x_hyb := forallb s_hyb ks; x_entries := map tok ks; x_seed := ctr |}, N.succ ctr)
    | RErr => (RErr, ctr)
    end.

  (* revisions: pinned = zip-shortest; repaired = all positions *)
  Fixpoint heads_tails (chs : list (list secret)) : option (list secret * list (list secret)) :=
    match chs with
    | [] => Some ([], [])
    | [] :: _ => None
    | (h :: t) :: rest => match heads_tails rest with Some (hs, ts) => Some (h :: hs, t :: ts) | None => None end
    end.
  Fixpoint revisions_pinned (fuel : nat) (chs : list (list secret)) : list (list secret) :=
    match fuel with O => [] | S f =>
      match heads_tails chs with Some (hs, ts) => hs :: revisions_pinned f ts | None => [] end end.
  Definition opens (x : xenc) (s : secret) : bool :=
    existsb (N.eqb (tok s)) (x_entries x) && (negb (x_hyb x) || s_hyb s).
  Definition decaps (u : usk) (x : xenc) : option N :=
    let chs := map snd (u_chains u) in
    let cands := if fx_rev fx then concat chs
                 else concat (revisions_pinned (S (fold_left Nat.max (map (@length _) chs) 0%nat)) chs) in
    if existsb (opens x) cands then Some (x_seed x) else None.

  Definition full_decaps (m : msk) (x : xenc) : list rightk :=
    flat_map (fun '(r, ch) => if existsb (fun '(fl, s) => fl && opens x s) ch then [r] else []) (m_secrets m).
  Definition recaps (m : msk) (p : mpk) (x : xenc) (ctr : N) : res xenc * N :=
    match full_decaps m x with
    | [] => (RErr, ctr)
    | rs => let rs' := if fx_recaps fx then filter (fun r => rmem r (p_keys p)) rs else rs in
            match rs' with [] => (RErr, ctr) | _ => encaps_rights p rs' ctr end
    end.
End K.
