From Coq Require Import List NArith Bool Arith Lia.
Require Import Policy ParseTotal.
Import ListNotations.

Lemma drop_ws_length s : (length (drop_ws s) <= length s)%nat.
Proof. induction s as [|c t IH]; cbn; [lia|]. destruct (is_ws c); cbn; lia. Qed.
Lemma trim_length s : (length (trim s) <= length s)%nat.
Proof.
  unfold trim. rewrite rev_length.
  etransitivity; [apply drop_ws_length|]. rewrite rev_length. apply drop_ws_length.
Qed.

Lemma slice_from_length : forall s k r, slice_from s k = Ok r -> (length r <= length s)%nat /\ (k <> 0 -> length r < length s)%nat.
Proof.
  induction s as [|c t IH]; intros k r H; cbn [slice_from] in H.
  - destruct (Nat.eqb k 0) eqn:E; [|discriminate]. inversion H; subst. apply Nat.eqb_eq in E. split; [lia|intros; lia].
  - destruct (Nat.eqb k 0) eqn:E.
    + inversion H; subst. apply Nat.eqb_eq in E. split; [lia|intros; lia].
    + destruct (Nat.leb (utf8_len c) k); [|discriminate].
      apply IH in H. cbn [length]. split; [lia|intros; lia].
Qed.
Lemma slice_to_length : forall s k r, slice_to s k = Ok r -> (length r <= length s)%nat.
Proof.
  induction s as [|c t IH]; intros k r H; cbn [slice_to] in H.
  - destruct (Nat.eqb k 0); [|discriminate]. inversion H; subst. cbn. lia.
  - destruct (Nat.eqb k 0); [inversion H; subst; cbn; lia|].
    destruct (Nat.leb (utf8_len c) k); [|discriminate].
    destruct (slice_to t (k - utf8_len c)) eqn:E; try discriminate.
    inversion H; subst. apply IH in E. cbn. lia.
Qed.

Lemma slice_from_not_hang : forall s k, slice_from s k <> Hang.
Proof. induction s as [|c t IH]; intros k; cbn [slice_from]; destruct (Nat.eqb k 0); try discriminate.
  destruct (Nat.leb (utf8_len c) k); [apply IH|discriminate]. Qed.
Lemma slice_to_not_hang : forall s k, slice_to s k <> Hang.
Proof. induction s as [|c t IH]; intros k; cbn [slice_to]; destruct (Nat.eqb k 0); try discriminate.
  destruct (Nat.leb (utf8_len c) k); [|discriminate].
  destruct (slice_to t (k - utf8_len c)) eqn:E; try discriminate. exfalso. eapply IH; exact E. Qed.
Lemma slice_not_hang s a b : slice s a b <> Hang.
Proof. unfold slice. destruct (slice_from s a) eqn:E; try discriminate; [apply slice_to_not_hang|exfalso; eapply slice_from_not_hang; exact E]. Qed.

Lemma take_attr_nonmeta c t : is_meta c = false -> take_attr (c :: t) = c :: take_attr t.
Proof. intros H. cbn. rewrite H. reflexivity. Qed.

(* With fuel > length of the input, the parser (pinned or repaired) never runs out of fuel. *)
Theorem parse_fuel_enough fixed : forall fuel e q, (length e < fuel)%nat -> parse_fuel fixed fuel e q <> Hang.
Proof.
  induction fuel as [|f IH]; intros e q Hlen; [lia|].
  cbn [parse_fuel].
  pose proof (trim_length e) as Ht.
  destruct (trim e) as [|c0 e1] eqn:Et.
  - destruct q; discriminate.
  - cbn [length] in Ht.
    destruct (str_eqb (c0 :: e1) [42%N]); [discriminate|].
    destruct (negb fixed && negb (Nat.eqb (utf8_len c0) 1)); [discriminate|].
    destruct (c0 =? 40)%N eqn:E40.
    + destruct (find_close e1 0 0 0) as [[ci bi]|]; [|discriminate].
      destruct (slice (c0 :: e1) 1 (1 + (if fixed then bi else ci))) as [inner| | |] eqn:Es; try discriminate;
        [|exfalso; eapply slice_not_hang; exact Es].
      assert (Hin : (length inner <= length e1)%nat).
      { unfold slice in Es. destruct (slice_from (c0 :: e1) 1) as [r| | |] eqn:Er; try discriminate.
        apply slice_from_length in Er. apply slice_to_length in Es. cbn [length] in Er. destruct Er as [_ Er]. specialize (Er ltac:(lia)). lia. }
      destruct (parse_fuel fixed f inner []) eqn:Ep; try discriminate.
      * destruct (slice_from (c0 :: e1) (2 + (if fixed then bi else ci))) as [e'| | |] eqn:Es2; try discriminate;
          [|exfalso; eapply slice_from_not_hang; exact Es2].
        apply slice_from_length in Es2. destruct Es2 as [_ Es2]. specialize (Es2 ltac:(lia)). cbn [length] in Es2.
        apply IH. lia.
      * exfalso. eapply IH; [|exact Ep]. lia.
    + destruct (c0 =? 124)%N eqn:E124.
      * destruct e1 as [|c1 e2]; [discriminate|].
        destruct (negb fixed && negb (Nat.eqb (utf8_len c1) 1)); [discriminate|].
        destruct (negb (c1 =? 124)%N); [discriminate|]. destruct q; [discriminate|].
        destruct (parse_fuel fixed f e2 []) eqn:Ep; try discriminate.
        exfalso. eapply IH; [|exact Ep]. cbn [length] in Ht. lia.
      * destruct (c0 =? 38)%N eqn:E38.
        -- destruct e1 as [|c1 e2]; [discriminate|].
           destruct (negb fixed && negb (Nat.eqb (utf8_len c1) 1)); [discriminate|].
           destruct (negb (c1 =? 38)%N); [discriminate|]. destruct q; [discriminate|].
           apply IH. cbn [length] in Ht. lia.
        -- destruct (c0 =? 41)%N eqn:E41; [discriminate|].
           assert (Hm : is_meta c0 = false) by (unfold is_meta; rewrite E40, E41, E124, E38; reflexivity).
           rewrite (take_attr_nonmeta _ _ Hm).
           destruct (qattr_of_str (c0 :: take_attr e1)) eqn:Eq; try discriminate.
           ++ apply IH. cbn [length skipn]. pose proof (skipn_length (length (take_attr e1)) e1). lia.
           ++ exfalso. eapply (proj2 (qattr_of_str_no_panic _)). exact Eq.
Qed.

Corollary parse_total fixed s : parse fixed s <> Hang.
Proof. apply parse_fuel_enough. lia. Qed.
Print Assumptions parse_total.
