(* The main statements about the key-management state machine (KeysMachine.step) in [fixed] mode,
   gathered from KInv1 .. KInv10, restated in full with the property they belong to.
   Conventions: [reach s] = s is the state after some history from [init];
                strings are lists of code points; a secret is a token [tok] plus a flavour bit [s_hyb];
                [fixed] = all repairs on (the /repo HEAD), [pinned] = the original tree 8f3c295. *)
From Coq Require Import List NArith Bool Arith Lia.
From CC Require Import Policy Structure Keys KeysMachine DisabledProofs
                       KInv1 KInv2 KInv3 KInv4 KInv4b KInv5 KInv6 KInv7 KInv8 KInv9 KInv10.
Import ListNotations.
Local Open Scope N_scope.

(* ================================================================ invariants over all histories *)
(* I1 *)
Theorem I1_chains_nonempty : forall ops, let s := run_state fixed init ops in
  (forall r ch, In (r, ch) (m_secrets (st_msk s)) -> ch <> []) /\
  NoDup (map fst (m_secrets (st_msk s))) /\
  (forall u r ch, In u (st_usks s) -> In (r, ch) (u_chains u) -> ch <> []).
Proof. intros ops s. destruct (chains_nonempty ops) as [H1 H2 H3]. split; [exact H1|]. split; [exact H2|]. intros u r ch Hu. apply (H3 u Hu). Qed.

(* I4 / C17 (token level) *)
Theorem I4_ids_registered : forall ops, let s := run_state fixed init ops in
  (forall u, In u (st_usks s) -> exists i, u_id u = Some i /\ In i (m_users (st_msk s))) /\
  NoDup (map u_id (st_usks s)) /\ NoDup (m_users (st_msk s)) /\ (forall i, In i (m_users (st_msk s)) -> i < st_ctr s).
Proof. intros ops s. destruct (ids_registered ops) as [H1 H2 H3 H4]. repeat split; assumption. Qed.

(* I2 *)
Theorem I2_tokens_fresh s : reach s ->
  (forall r sk, occurs s r sk -> tok sk < st_ctr s) /\
  (forall i, In i (m_users (st_msk s)) -> i < st_ctr s) /\
  (forall u i, In u (st_usks s) -> u_id u = Some i -> i < st_ctr s) /\
  (forall x, In x (st_encs s) -> x_seed x < st_ctr s /\ forall t, In t (x_entries x) -> t < st_ctr s).
Proof. exact (tokens_fresh s). Qed.
Theorem I2_msk_tokens_nodup s : reach s -> NoDup (msk_tokens (st_msk s)).
Proof. exact (msk_tokens_nodup s). Qed.
Theorem I2_tokens_unique s r r' sk sk' : reach s -> occurs s r sk -> occurs s r' sk' -> tok sk = tok sk' -> r = r' /\ sk = sk'.
Proof. exact (tokens_unique s r r' sk sk'). Qed.

(* I3 *)
Theorem I3_usk_sub_msk_history s : reach s -> exists L : rightk -> list secret,
  (forall r, NoDup (map tok (L r))) /\
  (forall r r' sk sk', In sk (L r) -> In sk' (L r') -> tok sk = tok sk' -> r = r' /\ sk = sk') /\
  (forall r sk, In sk (L r) -> tok sk < st_ctr s) /\
  (forall r ch, In (r, ch) (m_secrets (st_msk s)) -> exists k, (1 <= k <= length (L r))%nat /\ map snd ch = firstn k (L r)) /\
  (forall u r ch, In u (st_usks s) -> In (r, ch) (u_chains u) ->
     exists i j, (i < j <= length (L r))%nat /\ ch = firstn (j - i) (skipn i (L r))) /\
  (forall pk r sk, In pk (st_mpks s) -> In (r, sk) (p_keys pk) -> In sk (L r)) /\
  (forall x t, In x (st_encs s) -> In t (x_entries x) -> exists r sk, In sk (L r) /\ tok sk = t).
Proof. exact (usk_sub_msk_history s). Qed.

(* ================================================================ C04 *)
Theorem C04_rekey_pushes_front s p : reach s -> snd (step fixed s (ORekey p)) = ObOk ->
  let s' := fst (step fixed s (ORekey p)) in
  let m := st_msk s in let m' := st_msk s' in
  exists rs, usk_rights fixed (m_st m) p = ROk rs /\ NoDup rs /\
  (forall i r, nth_error rs i = Some r -> exists fl sk older,
        rlookup r (m_secrets m) = Some ((fl, sk) :: older) /\
        rlookup r (m_secrets m') = Some ((fl, {| tok := st_ctr s + N.of_nat i; s_hyb := s_hyb sk |}) :: (fl, sk) :: older)) /\
  (forall r, ~ In r rs -> rlookup r (m_secrets m') = rlookup r (m_secrets m)) /\
  map fst (m_secrets m') = map fst (m_secrets m) /\
  st_ctr s' = st_ctr s + N.of_nat (length rs) /\
  m_users m' = m_users m /\ m_st m' = m_st m /\ st_usks s' = st_usks s /\ st_encs s' = st_encs s /\
  st_mpks s' = st_mpks s ++ [mk_mpk m'] /\
  (forall r sk, rlookup r (p_keys (mk_mpk m')) = Some sk <-> exists older, rlookup r (m_secrets m') = Some ((true, sk) :: older)).
Proof. exact (rekey_pushes_front s p). Qed.

Theorem C04_decaps_iff_shared_token u x :
  (decaps fixed u x = Some (x_seed x) <-> exists sk, In sk (concat (map snd (u_chains u))) /\ opens x sk = true) /\
  (decaps fixed u x = None <-> forall sk, In sk (concat (map snd (u_chains u))) -> opens x sk = false).
Proof. exact (decaps_iff_shared_token u x). Qed.

Theorem C04_old_key_cannot_open u x c :
  (forall sk, In sk (concat (map snd (u_chains u))) -> tok sk < c) -> (forall t, In t (x_entries x) -> c <= t) ->
  decaps fixed u x = None.
Proof. exact (old_key_cannot_open u x c). Qed.

Theorem C04_stale_cannot_open ops1 p ops2 k u j pol rs x :
  let s1 := run_state fixed init ops1 in
  let s1' := fst (step fixed s1 (ORekey p)) in
  let s2 := run_state fixed s1' ops2 in
  snd (step fixed s1 (ORekey p)) = ObOk -> usk_rights fixed (m_st (st_msk s1)) p = ROk rs ->
  ~ In OSetup ops2 ->
  nth_error (st_usks s1) k = Some u ->
  (length (st_mpks s1) <= j)%nat ->
  (forall pk rsx, nth_error (st_mpks s2) j = Some pk -> enc_rights fixed (p_st pk) pol = ROk rsx -> incl rsx rs) ->
  st_encs (fst (step fixed s2 (OEncaps j pol))) = st_encs s2 ++ [x] ->
  decaps fixed u x = None.
Proof. exact (stale_cannot_open ops1 p ops2 k u j pol rs x). Qed.

Theorem C04_refresh_opens_current s k keep u : reach s -> nth_error (st_usks s) k = Some u ->
  snd (step fixed s (ORefresh k keep)) = ObOk ->
  exists u', nth_error (st_usks (fst (step fixed s (ORefresh k keep)))) k = Some u' /\
  (forall r ch, In (r, ch) (u_chains u') ->
      exists fl sk older rest, rlookup r (m_secrets (st_msk s)) = Some ((fl, sk) :: older) /\ ch = sk :: rest) /\
  (forall rs c x c' r, encaps_rights (mk_mpk (st_msk s)) rs c = (ROk x, c') -> In r rs -> In r (map fst (u_chains u')) ->
      decaps fixed u' x = Some (x_seed x)).
Proof. exact (refresh_opens_current s k keep u). Qed.

Theorem C04_keep_monotone s k u : reach s -> nth_error (st_usks s) k = Some u ->
  snd (step fixed s (ORefresh k true)) = ObOk ->
  exists u', nth_error (st_usks (fst (step fixed s (ORefresh k true)))) k = Some u' /\
  forall r uch sk mch, In (r, uch) (u_chains u) -> In sk uch ->
    rlookup r (m_secrets (st_msk s)) = Some mch -> In sk (map snd mch) ->
    exists ch, In (r, ch) (u_chains u') /\ In sk ch.
Proof. exact (keep_monotone s k u). Qed.

Theorem C04_nokeep_only_newest s k u : nth_error (st_usks s) k = Some u -> snd (step fixed s (ORefresh k false)) = ObOk ->
  exists u', nth_error (st_usks (fst (step fixed s (ORefresh k false)))) k = Some u' /\
  forall r ch, In (r, ch) (u_chains u') -> exists fl sk older, rlookup r (m_secrets (st_msk s)) = Some ((fl, sk) :: older) /\ ch = [sk].
Proof. exact (nokeep_only_newest s k u). Qed.

(* the rights a refreshed key holds: those it held that the MSK still has *)
Theorem C04_refreshed_rights m u keep r : nonempty_chains (m_secrets m) -> usk_ne u ->
  (In r (map fst (u_chains (refreshed m u keep))) <-> In r (map fst (u_chains u)) /\ In r (map fst (m_secrets m))).
Proof. exact (refreshed_rights m u keep r). Qed.

(* C04 is false on the pinned tree (F3): the revision iterator stops at the shortest chain *)
Definition hist_C04_pinned : list op :=
  [OSetup; OAddAnarchy sD; OAddAttr sD sa false None; OAddAttr sD sb false None; OUpdate; OKeygen sDaorb;
   OEncaps 1 sDa; ORekey sDa; ORefresh 0 true].
Theorem C04_pinned_refuted :
  exists u x, nth_error (st_usks (run_state pinned init hist_C04_pinned)) 0 = Some u /\
              nth_error (st_encs (run_state pinned init hist_C04_pinned)) 0 = Some x /\
              (exists sk, In sk (concat (map snd (u_chains u))) /\ opens x sk = true) /\
              snd (step pinned (run_state pinned init hist_C04_pinned) (ODecaps 0 0)) = ObNone /\
              snd (step fixed (run_state fixed init hist_C04_pinned) (ODecaps 0 0)) = ObSome 4.
Proof.
  eexists _, _. split; [vm_compute; reflexivity|]. split; [vm_compute; reflexivity|]. split; [|split; vm_compute; reflexivity].
  exists {| tok := 1; s_hyb := false |}. split; [cbn; tauto|vm_compute; reflexivity].
Qed.

(* ================================================================ C05 *)
Theorem C05_prune_spec s p rs : usk_rights fixed (m_st (st_msk s)) p = ROk rs ->
  let s' := fst (step fixed s (OPrune p)) in
  let m := st_msk s in let m' := st_msk s' in
  snd (step fixed s (OPrune p)) = ObOk /\
  (forall r ch, In r rs -> rlookup r (m_secrets m) = Some ch -> rlookup r (m_secrets m') = Some (firstn 1 ch)) /\
  (forall r, ~ In r rs -> rlookup r (m_secrets m') = rlookup r (m_secrets m)) /\
  map fst (m_secrets m') = map fst (m_secrets m) /\
  m_users m' = m_users m /\ m_st m' = m_st m /\ st_usks s' = st_usks s /\ st_encs s' = st_encs s /\ st_ctr s' = st_ctr s /\
  st_mpks s' = st_mpks s ++ [mk_mpk m'].
Proof. exact (prune_spec s p rs). Qed.

Theorem C05_refreshed_usk_subseq_msk s k keep u : reach s -> nth_error (st_usks s) k = Some u ->
  snd (step fixed s (ORefresh k keep)) = ObOk ->
  exists u', nth_error (st_usks (fst (step fixed s (ORefresh k keep)))) k = Some u' /\ u_id u' = u_id u /\
  st_msk (fst (step fixed s (ORefresh k keep))) = st_msk s /\
  forall r ch, In (r, ch) (u_chains u') ->
    exists mch uch j, rlookup r (m_secrets (st_msk s)) = Some mch /\ In (r, uch) (u_chains u) /\
                      (1 <= j)%nat /\ ch = firstn j (map snd mch).
Proof. exact (refreshed_usk_subseq_msk s k keep u). Qed.

Theorem C05_pruned_secret_unusable s k keep u : reach s -> nth_error (st_usks s) k = Some u ->
  snd (step fixed s (ORefresh k keep)) = ObOk ->
  exists u', nth_error (st_usks (fst (step fixed s (ORefresh k keep)))) k = Some u' /\
  forall r ch sk, In (r, ch) (u_chains u') -> In sk ch ->
    exists mch, rlookup r (m_secrets (st_msk s)) = Some mch /\ In sk (map snd mch).
Proof. exact (pruned_secret_unusable s k keep u). Qed.

Theorem C05_deleted_right_unusable s k keep u r : reach s -> nth_error (st_usks s) k = Some u ->
  snd (step fixed s (ORefresh k keep)) = ObOk -> rlookup r (m_secrets (st_msk s)) = None ->
  exists u', nth_error (st_usks (fst (step fixed s (ORefresh k keep)))) k = Some u' /\ ~ In r (map fst (u_chains u')).
Proof. exact (deleted_right_unusable s k keep u r). Qed.

Theorem C05_prune_then_refresh s p rs k keep : reach s -> usk_rights fixed (m_st (st_msk s)) p = ROk rs ->
  let s1 := fst (step fixed s (OPrune p)) in
  (k < length (st_usks s))%nat ->
  exists u', nth_error (st_usks (fst (step fixed s1 (ORefresh k keep)))) k = Some u' /\
  forall r ch, In r rs -> In (r, ch) (u_chains u') ->
    exists fl sk older, rlookup r (m_secrets (st_msk s)) = Some ((fl, sk) :: older) /\ ch = [sk].
Proof. exact (prune_then_refresh s p rs k keep). Qed.

(* non-vacuity of deleted_right_unusable and refresh_opens_current: D::a is deleted, the key loses right [0] at the next
   refresh, and still opens an encapsulation for D::b made under the current public key *)
Definition hist_del : list op :=
  [OSetup; OAddAnarchy sD; OAddAttr sD sa false None; OAddAttr sD sb true None; OUpdate; OKeygen sDaorb; ODelAttr sD sa; OUpdate].
Example deleted_right_nonvacuous :
  let s := run_state fixed init hist_del in
  rlookup [0] (m_secrets (st_msk s)) = None /\
  option_map (fun u => map fst (u_chains u)) (nth_error (st_usks s) 0) = Some [[0]; []; [1]] /\
  snd (run fixed s [ORefresh 0 true; OEncaps 2 sDb; ODecaps 0 0]) = [ObOk; ObOk; ObSome 4] /\
  option_map (fun u => map fst (u_chains u)) (nth_error (st_usks (fst (step fixed s (ORefresh 0 true)))) 0) = Some [[]; [1]].
Proof. vm_compute. repeat split; reflexivity. Qed.

(* C05 is false on the pinned tree (F4): the pruned secret (token 1 of right [0]) survives refresh(keep) *)
Definition hist_C05_pinned : list op :=
  [OSetup; OAddAnarchy sD; OAddAttr sD sa false None; OUpdate; OKeygen sDa; ORekey sDa; OPrune sDa; ORefresh 0 true].
Theorem C05_pinned_refuted :
  let sp := run_state pinned init hist_C05_pinned in let sf := run_state fixed init hist_C05_pinned in
  rlookup [0] (m_secrets (st_msk sp)) = Some [(true, {| tok := 4; s_hyb := false |})] /\
  option_map (fun u => rlookup [0] (u_chains u)) (nth_error (st_usks sp) 0) = Some (Some [{| tok := 4; s_hyb := false |}; {| tok := 1; s_hyb := false |}]) /\
  option_map (fun u => rlookup [0] (u_chains u)) (nth_error (st_usks sf) 0) = Some (Some [{| tok := 4; s_hyb := false |}]).
Proof. vm_compute. repeat split; reflexivity. Qed.

(* ================================================================ C06 *)
(* the structure of every reachable state is well formed (unique names and ids, ids below next_id): C03 on the machine *)
Theorem C06_wfb_reach : forall s, reach s -> WfProofs.wfb (m_st (st_msk s)).
Proof. exact wfb_reach. Qed.
(* no operation re-enables an attribute, and its id is never given to another attribute (until the next OSetup) *)
Theorem C06_no_reenable s o a : is_setup o = false -> a < next_id (m_st (st_msk s)) -> disabled_id (m_st (st_msk s)) a ->
  disabled_id (m_st (st_msk (fst (step fixed s o)))) a /\ a < next_id (m_st (st_msk (fst (step fixed s o)))).
Proof. exact (no_reenable s o a). Qed.
(* [~ In OSetup ops2]: OSetup creates a brand-new authority (structure, ids, snapshot list restart);
   KInv4b.disabled_never_published_setup_needed shows the statement fails without it *)
Theorem C06_disabled_never_published ops1 d n ops2 a :
  let s1 := run_state fixed init ops1 in
  let s2 := fst (step fixed s1 (ODisable d n)) in
  let s  := run_state fixed init (ops1 ++ [ODisable d n; OUpdate] ++ ops2) in
  attr_id_of (m_st (st_msk s1)) d n = Some a ->
  snd (step fixed s1 (ODisable d n)) = ObOk -> snd (step fixed s2 OUpdate) = ObOk ->
  ~ In OSetup ops2 ->
  forall j pk, (length (st_mpks s2) <= j)%nat -> nth_error (st_mpks s) j = Some pk ->
    (forall r sk, In (r, sk) (p_keys pk) -> ~ In a r) /\
    (forall p rs r, enc_rights fixed (p_st pk) p = ROk rs -> In r rs -> In a r -> snd (step fixed s (OEncaps j p)) = ObErr).
Proof. exact (disabled_never_published ops1 d n ops2 a). Qed.
Theorem C06_disabled_still_decrypts s d n :
  let s1 := fst (step fixed s (ODisable d n)) in
  let s2 := fst (step fixed s1 OUpdate) in
  (st_usks s1 = st_usks s /\ st_encs s1 = st_encs s /\ st_mpks s1 = st_mpks s /\ st_ctr s1 = st_ctr s /\
   m_secrets (st_msk s1) = m_secrets (st_msk s) /\ m_users (st_msk s1) = m_users (st_msk s)) /\
  (st_usks s2 = st_usks s /\ st_encs s2 = st_encs s /\
   forall r ch, rlookup r (m_secrets (st_msk s)) = Some ch -> rmem r (omega_map (m_st (st_msk s1))) = true ->
     exists ch', rlookup r (m_secrets (st_msk s2)) = Some ch' /\
       map (fun p : bool * secret => tok (snd p)) ch' = map (fun p : bool * secret => tok (snd p)) ch /\ tl ch' = tl ch) /\
  forall k e, snd (step fixed s2 (ODecaps k e)) = snd (step fixed s (ODecaps k e)).
Proof. exact (disabled_still_decrypts s d n). Qed.
(* C06_pinned_refuted (the pinned rekey re-activates a disabled right, F5): see KInv4b *)

(* ================================================================ C09 *)
Theorem C09_refresh_issued_ok s k keep : reach s -> (k < length (st_usks s))%nat -> snd (step fixed s (ORefresh k keep)) = ObOk.
Proof. exact (refresh_issued_ok s k keep). Qed.
Theorem C09_refresh_ok_iff s k keep : reach s -> (snd (step fixed s (ORefresh k keep)) = ObOk <-> (k < length (st_usks s))%nat).
Proof. exact (refresh_ok_iff_reach s k keep). Qed.
Theorem C09_update_ok_iff s : reach s -> (snd (step fixed s OUpdate) = ObOk <-> update_ok_b (st_msk s) = true).
Proof. exact (update_ok_iff s). Qed.
Theorem C09_update_err_iff s : reach s ->
  (snd (step fixed s OUpdate) = ObErr <-> exists r h, In (r, (h, false)) (omega_map (m_st (st_msk s))) /\ rmem r (m_secrets (st_msk s)) = false).
Proof. exact (update_err_iff s). Qed.
Theorem C09_rekey_ok_iff s p : snd (step fixed s (ORekey p)) = ObOk <->
  exists rs, usk_rights fixed (m_st (st_msk s)) p = ROk rs /\ rights_known (st_msk s) rs = true.
Proof. exact (rekey_ok_iff s p). Qed.
Theorem C09_prune_ok_iff s p : snd (step fixed s (OPrune p)) = ObOk <-> exists rs, usk_rights fixed (m_st (st_msk s)) p = ROk rs.
Proof. exact (prune_ok_iff s p). Qed.
Theorem C09_keygen_ok_iff s p : reach s -> (snd (step fixed s (OKeygen p)) = ObOk <->
  exists rs, usk_rights fixed (m_st (st_msk s)) p = ROk rs /\ rights_known (st_msk s) rs = true).
Proof. exact (keygen_ok_iff s p). Qed.
Theorem C09_encaps_ok_iff s j p : snd (step fixed s (OEncaps j p)) = ObOk <->
  exists pk rs, nth_error (st_mpks s) j = Some pk /\ enc_rights fixed (p_st pk) p = ROk rs /\
                forallb (fun r => rmem r (p_keys pk)) rs = true.
Proof. exact (encaps_ok_iff s j p). Qed.

(* ================================================================ C10 *)
Theorem C10_failed_step_unchanged : forall s o, reach s -> snd (step fixed s o) = ObErr -> fst (step fixed s o) = s.
Proof. exact failed_step_unchanged. Qed.
Theorem C10_non_ok_step_unchanged : forall s o, snd (step fixed s o) <> ObOk -> fst (step fixed s o) = s.
Proof. exact non_ok_step_unchanged. Qed.
(* C10_pinned_refuted : see KInv2 *)

(* ================================================================ C11 *)
Theorem C11_flavour_exact s : reach s -> exists F : rightk -> bool,
  (forall r ch fl sk, In (r, ch) (m_secrets (st_msk s)) -> In (fl, sk) ch -> s_hyb sk = F r) /\
  (forall pk r sk, In pk (st_mpks s) -> In (r, sk) (p_keys pk) -> s_hyb sk = F r) /\
  (forall u r ch sk, In u (st_usks s) -> In (r, ch) (u_chains u) -> In sk ch -> s_hyb sk = F r) /\
  (forall r h e, In (r, (h, e)) (omega_map (m_st (st_msk s))) -> F r = h) /\
  (forall r h e, In (r, (h, e)) (omega_map (m_st (st_msk s))) ->
     (F r = true <-> exists att, att_in (m_st (st_msk s)) att /\ In (a_id att) r /\ a_hyb att = true)).
Proof. exact (flavour_by_right s). Qed.
Theorem C11_update_front_hint s : reach s -> snd (step fixed s OUpdate) = ObOk ->
  let m' := st_msk (fst (step fixed s OUpdate)) in
  forall r h e, In (r, (h, e)) (omega_map (m_st (st_msk s))) ->
  exists fl sk older, rlookup r (m_secrets m') = Some ((fl, sk) :: older) /\ s_hyb sk = h /\
                      forall fl' sk', In (fl', sk') older -> s_hyb sk' = h.
Proof. exact (update_front_hint s). Qed.
Theorem C11_encaps_mode s j p : snd (step fixed s (OEncaps j p)) = ObOk ->
  exists pk rs ks x, nth_error (st_mpks s) j = Some pk /\ enc_rights fixed (p_st pk) p = ROk rs /\
    Forall2 (fun r sk => rlookup r (p_keys pk) = Some sk) rs ks /\
    st_encs (fst (step fixed s (OEncaps j p))) = st_encs s ++ [x] /\
    x_hyb x = forallb s_hyb ks /\ x_entries x = map tok ks /\ x_seed x = st_ctr s /\
    st_ctr (fst (step fixed s (OEncaps j p))) = N.succ (st_ctr s).
Proof. exact (encaps_mode s j p). Qed.

(* ================================================================ C13 *)
Theorem C13_roundtrip_identity fx s ops1 o ops2 :
  fst (run fx s (ops1 ++ ORoundTrip o :: ops2)) = fst (run fx s (ops1 ++ ops2)) /\
  exists obs1 obs2, length obs1 = length ops1 /\
    snd (run fx s (ops1 ++ ops2)) = obs1 ++ obs2 /\
    snd (run fx s (ops1 ++ ORoundTrip o :: ops2)) = obs1 ++ ObOk :: obs2.
Proof. exact (roundtrip_identity fx s ops1 o ops2). Qed.

(* ================================================================ C16 (token level) *)
Theorem C16_seeds_fresh s : reach s ->
  NoDup (map x_seed (st_encs s)) /\ NoDup (map u_id (st_usks s)) /\ NoDup (m_users (st_msk s)) /\
  (forall x, In x (st_encs s) -> x_seed x < st_ctr s).
Proof. exact (seeds_fresh s). Qed.
Theorem C16_rekey_publishes_new s p : reach s -> snd (step fixed s (ORekey p)) = ObOk ->
  forall rs r sk, usk_rights fixed (m_st (st_msk s)) p = ROk rs -> In r rs ->
  rlookup r (p_keys (mk_mpk (st_msk (fst (step fixed s (ORekey p)))))) = Some sk ->
  st_ctr s <= tok sk /\
  (forall r' sk', occurs s r' sk' -> tok sk' <> tok sk) /\
  (forall x t, In x (st_encs s) -> In t (x_entries x) -> t <> tok sk).
Proof. exact (rekey_publishes_new s p). Qed.

(* ================================================================ C17 (token level) *)
(* I4 above; explicitly: a refresh (whatever its outcome) and a round trip keep the identifier of every key and the user list *)
Theorem C17_refresh_keeps_ids s k keep : let s' := fst (step fixed s (ORefresh k keep)) in
  map u_id (st_usks s') = map u_id (st_usks s) /\ st_msk s' = st_msk s.
Proof.
  cbn [step]. destruct (nth_error (st_usks s) k) as [u|] eqn:En; [|split; reflexivity].
  pose proof (refresh_id (st_msk s) u keep) as Hid. destruct (refresh fixed (st_msk s) u keep) as [r u']. cbn in Hid |- *.
  split; [|reflexivity]. eapply set_nth_map; eassumption.
Qed.
Theorem C17_roundtrip_keeps_state s o : fst (step fixed s (ORoundTrip o)) = s.
Proof. reflexivity. Qed.

(* ================================================================ C18 *)
Theorem C18_recaps_spec s j e pk x : reach s ->
  nth_error (st_mpks s) j = Some pk -> nth_error (st_encs s) e = Some x ->
  (snd (step fixed s (ORecaps j e)) = ObOk <-> exists r, RR (st_msk s) pk x r) /\
  (snd (step fixed s (ORecaps j e)) = ObErr <-> ~ exists r, RR (st_msk s) pk x r) /\
  (snd (step fixed s (ORecaps j e)) = ObErr -> fst (step fixed s (ORecaps j e)) = s) /\
  (snd (step fixed s (ORecaps j e)) = ObOk -> exists x',
     fst (step fixed s (ORecaps j e)) =
       {| st_msk := st_msk s; st_mpks := st_mpks s; st_usks := st_usks s; st_encs := st_encs s ++ [x']; st_ctr := N.succ (st_ctr s) |} /\
     x_seed x' = st_ctr s /\
     (forall t, In t (x_entries x') <-> exists r sk, RR (st_msk s) pk x r /\ rlookup r (p_keys pk) = Some sk /\ tok sk = t) /\
     (x_hyb x' = true <-> forall r sk, RR (st_msk s) pk x r -> rlookup r (p_keys pk) = Some sk -> s_hyb sk = true)).
Proof. exact (recaps_spec s j e pk x). Qed.
Theorem C18_recaps_audience s j e pk x x' u : reach s ->
  nth_error (st_mpks s) j = Some pk -> nth_error (st_encs s) e = Some x ->
  st_encs (fst (step fixed s (ORecaps j e))) = st_encs s ++ [x'] ->
  (decaps fixed u x' = Some (x_seed x') <->
   exists sk, In sk (concat (map snd (u_chains u))) /\
              (exists r pks, RR (st_msk s) pk x r /\ rlookup r (p_keys pk) = Some pks /\ tok pks = tok sk) /\
              (x_hyb x' = false \/ s_hyb sk = true)).
Proof. exact (recaps_audience s j e pk x x' u). Qed.

(* with I2 (a token determines its secret) the audience is exactly the holders of a published secret, when the key is
   one of the machine's keys *)
Theorem C18_recaps_audience_state s j e pk x x' u : reach s ->
  nth_error (st_mpks s) j = Some pk -> nth_error (st_encs s) e = Some x ->
  st_encs (fst (step fixed s (ORecaps j e))) = st_encs s ++ [x'] -> In u (st_usks s) ->
  (decaps fixed u x' = Some (x_seed x') <->
   exists r pks ch, RR (st_msk s) pk x r /\ rlookup r (p_keys pk) = Some pks /\ In (r, ch) (u_chains u) /\ In pks ch).
Proof.
  intros Hr Hn He Hx Hu. rewrite (recaps_audience s j e pk x x' u Hr Hn He Hx). split.
  - intros (sk & Hsk & (r & pks & HR & Hl & Et) & _). apply in_concat in Hsk. destruct Hsk as (ch & Hch & Hsk).
    apply in_map_iff in Hch. destruct Hch as ([r0 ch0] & E & Hch). cbn in E. subst ch0.
    assert (O1 : occurs s r pks) by (eapply occ_mpk; [eapply nth_error_In; exact Hn|apply rlookup_In; exact Hl]).
    assert (O2 : occurs s r0 sk) by (eapply occ_usk; eassumption).
    destruct (tokens_unique s r r0 pks sk Hr O1 O2 Et) as [-> ->]. exists r0, sk, ch. split; [exact HR|]. split; [exact Hl|]. split; assumption.
  - intros (r & pks & ch & HR & Hl & Hch & Hin).
    assert (Hc : In pks (concat (map snd (u_chains u)))) by (apply in_concat; exists ch; split; [apply in_map_iff; exists (r, ch); split; [reflexivity|exact Hch]|exact Hin]).
    apply (recaps_audience s j e pk x x' u Hr Hn He Hx). apply (recaps_audience_holder s j e pk x x' u r pks Hr Hn He Hx HR Hl Hc).
Qed.

Print Assumptions I1_chains_nonempty.
Print Assumptions I4_ids_registered.
Print Assumptions I2_tokens_fresh.
Print Assumptions I2_msk_tokens_nodup.
Print Assumptions I2_tokens_unique.
Print Assumptions I3_usk_sub_msk_history.
Print Assumptions C04_rekey_pushes_front.
Print Assumptions C04_stale_cannot_open.
Print Assumptions C04_refresh_opens_current.
Print Assumptions C04_keep_monotone.
Print Assumptions C04_nokeep_only_newest.
Print Assumptions C04_pinned_refuted.
Print Assumptions C05_prune_spec.
Print Assumptions C05_refreshed_usk_subseq_msk.
Print Assumptions C05_pruned_secret_unusable.
Print Assumptions C05_deleted_right_unusable.
Print Assumptions C05_prune_then_refresh.
Print Assumptions C05_pinned_refuted.
Print Assumptions C06_wfb_reach.
Print Assumptions C06_no_reenable.
Print Assumptions C06_disabled_never_published.
Print Assumptions C06_disabled_still_decrypts.
Print Assumptions C06_pinned_refuted.
Print Assumptions C09_refresh_ok_iff.
Print Assumptions C09_update_ok_iff.
Print Assumptions C09_update_err_iff.
Print Assumptions C09_rekey_ok_iff.
Print Assumptions C09_keygen_ok_iff.
Print Assumptions C09_encaps_ok_iff.
Print Assumptions C10_failed_step_unchanged.
Print Assumptions C10_pinned_refuted.
Print Assumptions C11_flavour_exact.
Print Assumptions C11_update_front_hint.
Print Assumptions C11_encaps_mode.
Print Assumptions C13_roundtrip_identity.
Print Assumptions C16_seeds_fresh.
Print Assumptions C16_rekey_publishes_new.
Print Assumptions C17_refresh_keeps_ids.
Print Assumptions C18_recaps_spec.
Print Assumptions C18_recaps_audience.
Print Assumptions C18_recaps_audience_state.
Print Assumptions C18_pinned_refuted.
