(* End-to-end statements of C01 / C02 on the key-management state machine (KeysMachine.step, [fixed] mode).
   Part 1: the rights-level bridge (user rights meet encryption rights  <->  some user clause covers some
           encryption clause), the operations that leave the master key and the published snapshots alone
           ([quiet]), the shape of a successful OUpdate / OKeygen / OEncaps, and the two general theorems
           [C01_complete_gen] / [C02_sound_gen]:

     s0 reachable, OUpdate succeeds on s0 giving s1 (master key in sync with the structure, snapshot
     pk = mk_mpk (st_msk s1) published at index j = length (st_mpks s0));
     a key u is issued by a successful OKeygen UP in ANY state sK reached from s1 by quiet operations;
     an encapsulation x is made by a successful OEncaps j EP in ANY state sE reached from s1 by quiet operations
     (the two histories need not even be the same one, so both orders of the two operations are covered);
     then  decaps u x = Some (x_seed x)  if some clause of UP covers some clause of EP   (C01)
           decaps u x = None             otherwise                                       (C02).

   Quiet operations: OKeygen, OEncaps, ODecaps, ORecaps, ORefresh, OMpk, ORoundTrip (anything that does not
   touch the structure or the secrets of the MSK).  NOT allowed in between: OSetup, structure edits, OUpdate,
   ORekey, OPrune (subject of C03-C06).

   No hypothesis beyond those of the property is needed: well-formedness of the structure comes from
   [wfb_reach], uniqueness of tokens from [tokens_unique], the success of the operations is a hypothesis
   (E2E3.v characterises when they succeed). *)
From Coq Require Import List NArith Bool Arith Lia.
From CC Require Import Policy Structure Keys KeysMachine SelProofs GoodProofs AssocLemmas
                       CoverProofs1 CoverProofs2 CoverPolicy DisabledProofs WfProofs
                       KInv1 KInv3 KInv4 KInv5 KInv6 KInv7 KInv9.
Import ListNotations.
Local Open Scope N_scope.

(* ---------------------------------------------------------------- rights level *)
Lemma assoc_clauses_spec st : forall dnf rs, assoc_clauses st dnf = Ok rs ->
  (forall E, In E dnf -> exists ids, ids_of_clause st E = Ok ids /\ In (right_of_point ids) rs) /\
  (forall r, In r rs -> exists E ids, In E dnf /\ ids_of_clause st E = Ok ids /\ r = right_of_point ids).
Proof.
  induction dnf as [|E0 dnf IH]; intros rs H; cbn [assoc_clauses] in H.
  - inversion H; subst. split; [intros ? []|intros ? []].
  - destruct (ids_of_clause st E0) as [ids0| | |] eqn:E0ids; try discriminate.
    destruct (assoc_clauses st dnf) as [r0| | |] eqn:Er; try discriminate. inversion H; subst; clear H.
    destruct (IH r0 eq_refl) as [H1 H2]. split.
    + intros E [<-|HE].
      * exists ids0. split; [exact E0ids|left; reflexivity].
      * destruct (H1 E HE) as (ids & Hi & Hin). exists ids. split; [exact Hi|right; exact Hin].
    + intros r [<-|Hr].
      * exists E0, ids0. split; [left; reflexivity|]. split; [exact E0ids|reflexivity].
      * destruct (H2 r Hr) as (E & ids & HE & Hi & Heq). exists E, ids. split; [right; exact HE|]. split; assumption.
Qed.

Lemma associated_rights_spec st ep rs : associated_rights st ep = Ok rs ->
  (forall E, In E (to_dnf ep) -> exists ids, ids_of_clause st E = Ok ids /\ In (right_of_point ids) rs) /\
  (forall r, In r rs -> exists E ids, In E (to_dnf ep) /\ ids_of_clause st E = Ok ids /\ r = right_of_point ids).
Proof.
  unfold associated_rights. destruct (assoc_clauses st (to_dnf ep)) as [rs0| | |] eqn:Ea; try discriminate.
  intros H. inversion H; subst; clear H. destruct (assoc_clauses_spec _ _ _ Ea) as [H1 H2]. split.
  - intros E HE. destruct (H1 E HE) as (ids & Hi & Hin). exists ids. split; [exact Hi|apply (proj2 (dedup_In _ _)); exact Hin].
  - intros r Hr. apply (proj1 (dedup_In _ _)) in Hr. apply H2. exact Hr.
Qed.

(* the user's rights and the rights targeted by the encapsulation meet iff some user clause covers some
   encryption clause *)
Theorem rights_meet_iff_cover st up ep rsU rsE :
  wf_structure st ->
  (forall U, In U (to_dnf up) -> NoDup (map qdim U)) -> (forall E, In E (to_dnf ep) -> NoDup (map qdim E)) ->
  complementary_rights st up = Ok rsU -> associated_rights st ep = Ok rsE ->
  ((exists r, In r rsU /\ In r rsE) <->
   (exists U E, In U (to_dnf up) /\ In E (to_dnf ep) /\ covers st U E)).
Proof.
  intros Hwf HU HE HrU HrE. destruct (associated_rights_spec _ _ _ HrE) as [A1 A2]. split.
  - intros (r & HrU' & HrE'). destruct (A2 r HrE') as (E & ids & HEin & Hids & ->).
    apply (usk_rights_cover st up E rsU ids Hwf HU (HE E HEin) HrU Hids) in HrU'.
    destruct HrU' as (U & HUin & Hc). exists U, E. split; [exact HUin|]. split; [exact HEin|exact Hc].
  - intros (U & E & HUin & HEin & Hc). destruct (A1 E HEin) as (ids & Hids & Hin).
    exists (right_of_point ids). split; [|exact Hin].
    apply (usk_rights_cover st up E rsU ids Hwf HU (HE E HEin) HrU Hids). exists U. split; assumption.
Qed.
Print Assumptions rights_meet_iff_cover.

(* ---------------------------------------------------------------- quiet operations *)
Definition quiet (o : op) : bool :=
  match o with
  | OKeygen _ | OEncaps _ _ | ODecaps _ _ | ORecaps _ _ | ORefresh _ _ | OMpk | ORoundTrip _ => true
  | _ => false
  end.

Record same_keys (s s' : state) : Prop := {
  sk_secs : m_secrets (st_msk s') = m_secrets (st_msk s);
  sk_st   : m_st (st_msk s') = m_st (st_msk s);
  sk_mpks : exists l, st_mpks s' = st_mpks s ++ l }.

Lemma same_keys_refl s : same_keys s s.
Proof. constructor; [reflexivity|reflexivity|exists []; rewrite app_nil_r; reflexivity]. Qed.
Lemma same_keys_trans s1 s2 s3 : same_keys s1 s2 -> same_keys s2 s3 -> same_keys s1 s3.
Proof.
  intros [A1 A2 (l1 & A3)] [B1 B2 (l2 & B3)]. constructor; [congruence|congruence|].
  exists (l1 ++ l2). rewrite B3, A3, app_assoc. reflexivity.
Qed.

Lemma quiet_step s o : quiet o = true -> same_keys s (fst (step fixed s o)).
Proof.
  intros Hq. destruct o; try discriminate; cbn [step].
  - (* OMpk *) constructor; cbn; [reflexivity|reflexivity|eexists; reflexivity].
  - (* OKeygen *)
    destruct (usk_rights fixed (m_st (st_msk s)) p) as [rs|]; [|apply same_keys_refl]. unfold keygen.
    destruct (latest_all (st_msk s) rs) as [chs|]; cbn.
    + constructor; cbn; [reflexivity|reflexivity|exists []; rewrite app_nil_r; reflexivity].
    + rewrite with_msk_ctr_id. apply same_keys_refl.
  - (* ORefresh *)
    destruct (nth_error (st_usks s) k) as [u|]; [|apply same_keys_refl].
    destruct (refresh fixed (st_msk s) u keep) as [r u']. cbn.
    constructor; cbn; [reflexivity|reflexivity|exists []; rewrite app_nil_r; reflexivity].
  - (* OEncaps *)
    destruct (nth_error (st_mpks s) j) as [pk|]; [|apply same_keys_refl].
    destruct (enc_rights fixed (p_st pk) p) as [rs|]; [|apply same_keys_refl].
    destruct (encaps_rights pk rs (st_ctr s)) as [[x|] c]; [|apply same_keys_refl]. cbn.
    constructor; cbn; [reflexivity|reflexivity|exists []; rewrite app_nil_r; reflexivity].
  - (* ODecaps *)
    destruct (nth_error (st_usks s) k) as [u|]; [|apply same_keys_refl].
    destruct (nth_error (st_encs s) e); [|apply same_keys_refl]. destruct (u_chains u); apply same_keys_refl.
  - (* ORecaps *)
    destruct (nth_error (st_mpks s) j) as [pk|]; [|apply same_keys_refl].
    destruct (nth_error (st_encs s) e) as [x|]; [|apply same_keys_refl].
    destruct (recaps fixed (st_msk s) pk x (st_ctr s)) as [[x'|] c]; [|apply same_keys_refl]. cbn.
    constructor; cbn; [reflexivity|reflexivity|exists []; rewrite app_nil_r; reflexivity].
  - (* ORoundTrip *) apply same_keys_refl.
Qed.

Lemma quiet_run : forall ops s, Forall (fun o => quiet o = true) ops -> same_keys s (run_state fixed s ops).
Proof.
  induction ops as [|o ops IH]; intros s H; [apply same_keys_refl|]. inversion H as [|? ? Ho Hops]; subst.
  rewrite run_state_cons. eapply same_keys_trans; [apply quiet_step; exact Ho|apply IH; exact Hops].
Qed.

(* ---------------------------------------------------------------- shapes of the three successful operations *)
Lemma update_shape s0 : snd (step fixed s0 OUpdate) = ObOk ->
  let s1 := fst (step fixed s0 OUpdate) in
  st_mpks s1 = st_mpks s0 ++ [mk_mpk (st_msk s1)] /\ m_st (st_msk s1) = m_st (st_msk s0) /\
  st_usks s1 = st_usks s0 /\ st_encs s1 = st_encs s0.
Proof.
  cbn [step]. pose proof (update_msk_st (st_msk s0) (st_ctr s0)) as Hst.
  destruct (update_msk fixed (st_msk s0) (st_ctr s0)) as [[r m'] c]. cbn in Hst.
  destruct r; cbn; [|discriminate]. intros _. repeat split. exact Hst.
Qed.

Lemma keygen_shape s p : snd (step fixed s (OKeygen p)) = ObOk ->
  exists rs chs, usk_rights fixed (m_st (st_msk s)) p = ROk rs /\ latest_all (st_msk s) rs = ROk chs /\
    st_usks (fst (step fixed s (OKeygen p))) = st_usks s ++ [{| u_id := Some (st_ctr s); u_chains := chs |}] /\
    st_mpks (fst (step fixed s (OKeygen p))) = st_mpks s /\ st_encs (fst (step fixed s (OKeygen p))) = st_encs s.
Proof.
  cbn [step]. destruct (usk_rights fixed (m_st (st_msk s)) p) as [rs|] eqn:Er; [|cbn; discriminate]. unfold keygen.
  destruct (latest_all (st_msk s) rs) as [chs|] eqn:El; cbn; [|discriminate]. intros _. exists rs, chs.
  split; [reflexivity|]. split; [exact El|]. repeat split.
Qed.

Lemma usk_rights_parsed st p up rs : parse true p = Ok up -> usk_rights fixed st p = ROk rs -> complementary_rights st up = Ok rs.
Proof.
  intros Hp. unfold usk_rights. cbn [fx_parse fixed KeysMachine.fx_all]. rewrite Hp.
  destruct (complementary_rights st up) as [rs'| | |]; try discriminate. intros H. inversion H. reflexivity.
Qed.
Lemma enc_rights_parsed st p ep rs : parse true p = Ok ep -> enc_rights fixed st p = ROk rs -> associated_rights st ep = Ok rs.
Proof.
  intros Hp. unfold enc_rights. cbn [fx_parse fixed KeysMachine.fx_all]. rewrite Hp.
  destruct (associated_rights st ep) as [rs'| | |]; try discriminate. intros H. inversion H. reflexivity.
Qed.

Lemma Forall2_weaken {A B} (P Q : A -> B -> Prop) l l' : (forall a b, P a b -> Q a b) -> Forall2 P l l' -> Forall2 Q l l'.
Proof. intros HPQ H. induction H as [|a b l l' Hab _ IH]; constructor; [apply HPQ; exact Hab|exact IH]. Qed.

(* ---------------------------------------------------------------- the common setting *)
(* The hypotheses of this Section are satisfiable together: E2E6.v [setting_inhabited]; the theorems are applied to
   a concrete history in E2E3.v [C01_nonvacuous], [C02_nonvacuous], [enc_first_nonvacuous]. *)
Section Setting.
  Variables (s0 : state) (opsK opsE : list op) (UP EP : str) (up ep : policy) (u : usk) (x : xenc).
  Let s1 := fst (step fixed s0 OUpdate).
  Let m1 := st_msk s1.
  Let st := m_st m1.
  Let j := length (st_mpks s0).
  Let sK := run_state fixed s1 opsK.
  Let sE := run_state fixed s1 opsE.

  Hypothesis Hr : reach s0.
  Hypothesis Hok : snd (step fixed s0 OUpdate) = ObOk.
  Hypothesis HqK : Forall (fun o => quiet o = true) opsK.
  Hypothesis HqE : Forall (fun o => quiet o = true) opsE.
  Hypothesis HokK : snd (step fixed sK (OKeygen UP)) = ObOk.
  Hypothesis Hu : st_usks (fst (step fixed sK (OKeygen UP))) = st_usks sK ++ [u].
  Hypothesis HokE : snd (step fixed sE (OEncaps j EP)) = ObOk.
  Hypothesis Hx : st_encs (fst (step fixed sE (OEncaps j EP))) = st_encs sE ++ [x].
  Hypothesis Hup : parse true UP = Ok up.
  Hypothesis Hep : parse true EP = Ok ep.

  (* what the key and the encapsulation look like, in terms of the master key of s1 *)
  Lemma e2e_facts : exists rsU rsE ks,
    complementary_rights st up = Ok rsU /\ associated_rights st ep = Ok rsE /\
    map fst (u_chains u) = rsU /\
    (forall r ch, In (r, ch) (u_chains u) -> exists fl sk older, rlookup r (m_secrets m1) = Some ((fl, sk) :: older) /\ ch = [sk]) /\
    Forall2 (fun r sk => exists older, rlookup r (m_secrets m1) = Some ((true, sk) :: older)) rsE ks /\
    x_hyb x = forallb s_hyb ks /\ x_entries x = map tok ks.
  Proof.
    assert (Hr1 : reach s1) by (apply reach_step; exact Hr).
    destruct (inv14_reach _ Hr1) as [[_ Hnd _] _]. fold m1 in Hnd.
    destruct (update_shape s0 Hok) as (Hmpk & _). fold s1 in Hmpk. fold m1 in Hmpk.
    destruct (quiet_run opsK s1 HqK) as [KS KT _]. fold sK in KS, KT.
    destruct (quiet_run opsE s1 HqE) as [_ _ (lE & EM)]. fold sE in EM.
    (* the key *)
    destruct (keygen_shape sK UP HokK) as (rsU & chs & HrU & Hla & Hu' & _).
    rewrite Hu in Hu'. apply app_inj_tail in Hu'. destruct Hu' as [_ Eu].
    rewrite KT in HrU. fold m1 in HrU. fold st in HrU.
    destruct (latest_all_spec _ _ _ Hla) as [Hfst Hch]. rewrite KS in Hch. fold m1 in Hch.
    (* the encapsulation *)
    destruct (encaps_mode sE j EP HokE) as (pk & rsE & ks & x' & Hn & HrE & HF & Hx' & Hh & He & _).
    rewrite Hx in Hx'. apply app_inj_tail in Hx'. destruct Hx' as [_ Ex]. subst x'.
    assert (Epk : pk = mk_mpk m1).
    { rewrite EM, Hmpk, <- app_assoc in Hn. unfold j in Hn. rewrite nth_error_app2 in Hn by lia.
      rewrite Nat.sub_diag in Hn. cbn in Hn. inversion Hn. reflexivity. }
    subst pk. cbn [p_st mk_mpk] in HrE. fold st in HrE.
    exists rsU, rsE, ks. split; [eapply usk_rights_parsed; eassumption|]. split; [eapply enc_rights_parsed; eassumption|].
    subst u. cbn [u_chains]. split; [exact Hfst|]. split; [exact Hch|]. split; [|split; assumption].
    eapply Forall2_weaken; [|exact HF]. intros r sk Hl. apply (mk_mpk_published m1 r sk Hnd). exact Hl.
  Qed.

  Hypothesis HndU : forall U, In U (to_dnf up) -> NoDup (map qdim U).
  Hypothesis HndE : forall E, In E (to_dnf ep) -> NoDup (map qdim E).

  Lemma st_wf : wf_structure st.
  Proof. apply (wfb_reach s1). apply reach_step. exact Hr. Qed.

  (* C01 (completeness): an authorized key recovers exactly the encapsulated secret *)
  Theorem C01_complete_gen :
    (exists U E, In U (to_dnf up) /\ In E (to_dnf ep) /\ covers st U E) -> decaps fixed u x = Some (x_seed x).
  Proof.
    intros Hcov. destruct e2e_facts as (rsU & rsE & ks & HrU & HrE & Hfst & Hch & HF & Hh & He).
    apply (rights_meet_iff_cover st up ep rsU rsE st_wf HndU HndE HrU HrE) in Hcov. destruct Hcov as (r & HinU & HinE).
    rewrite <- Hfst in HinU. apply in_map_iff in HinU. destruct HinU as ([r0 ch] & E0 & Hin). cbn in E0. subst r0.
    destruct (Hch r ch Hin) as (fl & sk & older & Hl & ->).
    destruct (KInv5.Forall2_In_l _ _ _ _ HF HinE) as (sk' & Hsk' & (older' & Hl')).
    rewrite Hl in Hl'. inversion Hl'; subst fl sk' older'.
    apply (decaps_iff_shared_token u x). exists sk. split.
    - apply in_concat. exists [sk]. split; [|left; reflexivity]. apply in_map_iff. exists (r, [sk]). split; [reflexivity|exact Hin].
    - unfold opens. rewrite Hh, He. apply andb_true_iff. split.
      + apply existsb_exists. exists (tok sk). split; [apply in_map; exact Hsk'|apply N.eqb_refl].
      + destruct (forallb s_hyb ks) eqn:Ef; [|reflexivity]. cbn. rewrite forallb_forall in Ef. apply Ef. exact Hsk'.
  Qed.

  (* C02 (soundness): an unauthorized key recovers nothing *)
  Theorem C02_sound_gen :
    (forall U E, In U (to_dnf up) -> In E (to_dnf ep) -> ~ covers st U E) -> decaps fixed u x = None.
  Proof.
    intros Hno. destruct e2e_facts as (rsU & rsE & ks & HrU & HrE & Hfst & Hch & HF & Hh & He).
    assert (Hr1 : reach s1) by (apply reach_step; exact Hr).
    apply (decaps_iff_shared_token u x). intros sk Hsk. destruct (opens x sk) eqn:Eo; [exfalso|reflexivity].
    apply in_concat in Hsk. destruct Hsk as (ch & Hch' & Hsk). apply in_map_iff in Hch'. destruct Hch' as ([r ch0] & E0 & Hin).
    cbn in E0. subst ch0. destruct (Hch r ch Hin) as (fl & sk0 & older & Hl & ->). destruct Hsk as [<-|[]].
    unfold opens in Eo. apply andb_true_iff in Eo. destruct Eo as [Eo _]. rewrite He in Eo.
    apply existsb_exists in Eo. destruct Eo as (t & Ht & Et). apply N.eqb_eq in Et. apply in_map_iff in Ht. destruct Ht as (sk' & Et' & Hsk').
    destruct (KInv5.Forall2_In_r _ _ _ _ HF Hsk') as (r' & Hr' & (older' & Hl')).
    assert (O1 : occurs s1 r sk0) by (eapply occ_msk; [apply rlookup_In; exact Hl|left; reflexivity]).
    assert (O2 : occurs s1 r' sk') by (eapply occ_msk; [apply rlookup_In; exact Hl'|left; reflexivity]).
    destruct (tokens_unique s1 r r' sk0 sk' Hr1 O1 O2) as [-> _]; [congruence|].
    assert (Hmeet : exists r, In r rsU /\ In r rsE).
    { exists r'. split; [|exact Hr']. rewrite <- Hfst. apply in_map_iff. exists (r', [sk0]). split; [reflexivity|exact Hin]. }
    apply (rights_meet_iff_cover st up ep rsU rsE st_wf HndU HndE HrU HrE) in Hmeet.
    destruct Hmeet as (U & E & HU & HE & Hc). exact (Hno U E HU HE Hc).
  Qed.
End Setting.

Print Assumptions C01_complete_gen.
Print Assumptions C02_sound_gen.
