(* Executable model of the CONCRETE representation of the three containers of src/data_struct/:
     Dict<K,V>         (dictionary.rs)    entries : Vec<(K,V)>  +  indices : HashMap<K, usize>
     RevisionMap<K,V>  (revision_map.rs)  HashMap<K, LinkedList<V>>, newest first
     RevisionVec<K,T>  (revision_vec.rs)  Vec<(K, LinkedList<T>)>
   The higher layers (Structure.v, Keys.v) use association lists; DictProofs.v proves that this model refines them.

   Keys are `str` = list N (as in Structure.v), compared with `str_eqb`; values are a type parameter.
   A HashMap is modelled as an association list WITH UNIQUE KEYS that is only ever read through `alookup`
   (finite-map view; the iteration order of a HashMap is never observed by `Dict`).  The three HashMap primitives:
     get    = ifind  (= alookup)         insert = iset (= ainsert: overwrite or append)        remove = idel (= aremove)
   No Section in this file: every definition is closed and extractable. *)
From Coq Require Import List NArith Bool Arith.
From CC Require Import Policy Structure RevIter.
Import ListNotations.
Local Open Scope nat_scope.

(* ------------------------------------------------------------------ positional helpers on Vec *)
(* Vec::remove(i) (in range) *)
Fixpoint remove_nth {A} (i : nat) (l : list A) : list A :=
  match l with [] => [] | x :: t => match i with O => t | S j => x :: remove_nth j t end end.
(* v[i] = f(v[i]) (in range; out of range the Rust code panics, see d_oob) *)
Fixpoint update_nth {A} (i : nat) (f : A -> A) (l : list A) : list A :=
  match l with [] => [] | x :: t => match i with O => f x :: t | S j => x :: update_nth j f t end end.

(* ------------------------------------------------------------------ Dict *)
Record dict (V : Type) := mkDict { entries : list (str * V); indices : list (str * nat) }.
Arguments mkDict {V}. Arguments entries {V}. Arguments indices {V}.

Definition imap := list (str * nat).
Definition ifind (k : str) (ix : imap) : option nat := alookup k ix.           (* HashMap::get *)
Definition iset (k : str) (i : nat) (ix : imap) : imap := ainsert k i ix.      (* HashMap::insert / VacantEntry::insert *)
Definition idel (k : str) (ix : imap) : imap := aremove k ix.                  (* HashMap::remove *)
(* iter_mut().filter(|(_, index)| p index).for_each(|(_, index)| *index -= 1) *)
Definition idec_if (p : nat -> bool) (ix : imap) : imap := map (fun kj => (fst kj, if p (snd kj) then pred (snd kj) else snd kj)) ix.

Definition d_new {V} : dict V := mkDict [] [].
Definition d_len {V} (d : dict V) : nat := length (indices d).                 (* self.indices.len() (!) *)
Definition d_is_empty {V} (d : dict V) : bool := Nat.eqb (d_len d) 0.

(* insert: [newidx] is the index recorded for a fresh key as a function of entries.len(); the code uses the identity. *)
Definition d_insert_gen {V} (newidx : nat -> nat) (k : str) (v : V) (d : dict V) : dict V * option V :=
  match ifind k (indices d) with
  | Some i => (mkDict (update_nth i (fun e => (fst e, v)) (entries d)) (indices d),     (* mem::replace(&mut entries[i].1, value) *)
               option_map snd (nth_error (entries d) i))
  | None => (mkDict (entries d ++ [(k, v)]) (iset k (newidx (length (entries d))) (indices d)), None)
  end.
Definition newidx_real (len : nat) : nat := len.
Definition d_insert {V} := @d_insert_gen V newidx_real.

(* remove: [shift idx i] decides whether the index [idx] of a remaining key is decremented when position [i] is removed.
   The code: `**index > entry_index`. *)
Definition d_remove_gen {V} (shift : nat -> nat -> bool) (k : str) (d : dict V) : dict V * option V :=
  match ifind k (indices d) with
  | None => (d, None)                                                                   (* `?` *)
  | Some i => (mkDict (remove_nth i (entries d)) (idec_if (fun idx => shift idx i) (idel k (indices d))),
               option_map snd (nth_error (entries d) i))
  end.
Definition shift_real (idx i : nat) : bool := i <? idx.          (* index > entry_index *)
Definition shift_ge (idx i : nat) : bool := i <=? idx.           (* index >= entry_index *)
Definition shift_skip (idx i : nat) : bool := S i <? idx.        (* index > entry_index + 1: forgets the next element *)
Definition shift_none (idx i : nat) : bool := false.             (* no re-indexing at all *)
Definition d_remove {V} := @d_remove_gen V shift_real.

Inductive dict_err := MissingEntry | ExistingEntry.
Inductive ures (A : Type) := UOk (a : A) | UErr (e : dict_err).
Arguments UOk {A}. Arguments UErr {A}.

Definition d_update_key {V} (old new : str) (d : dict V) : ures (dict V) :=
  match ifind old (indices d) with
  | None => UErr MissingEntry
  | Some i =>
      match ifind new (indices d) with
      | Some _ => UErr ExistingEntry                                                   (* also when old = new *)
      | None => UOk (mkDict (update_nth i (fun e => (new, snd e)) (entries d))         (* swap(&mut entries[i].0, &mut new_key) *)
                            (idel old (iset new i (indices d))))                      (* e.insert(i); indices.remove(old) *)
      end
  end.

Definition d_contains {V} (k : str) (d : dict V) : bool := match ifind k (indices d) with Some _ => true | None => false end.
Definition d_get_key_value {V} (k : str) (d : dict V) : option (str * V) :=
  match ifind k (indices d) with Some i => nth_error (entries d) i | None => None end.
Definition d_get {V} (k : str) (d : dict V) : option V := option_map snd (d_get_key_value k d).
Definition d_iter {V} (d : dict V) : list (str * V) := entries d.
Definition d_keys {V} (d : dict V) : list str := map fst (entries d).
Definition d_values {V} (d : dict V) : list V := map snd (entries d).
Definition d_from_iter {V} (l : list (str * V)) : dict V := fold_left (fun d kv => fst (d_insert (fst kv) (snd kv) d)) l d_new.

(* `entries[i]`, `entries.remove(i)` panic when i is out of range: would the code panic on key k ? *)
Definition d_oob {V} (k : str) (d : dict V) : bool :=
  match ifind k (indices d) with Some i => negb (i <? length (entries d)) | None => false end.

(* operation sequences *)
Inductive dop (V : Type) := DInsert (k : str) (v : V) | DRemove (k : str) | DUpdateKey (k k' : str) | DGet (k : str).
Arguments DInsert {V}. Arguments DRemove {V}. Arguments DUpdateKey {V}. Arguments DGet {V}.
Inductive dobs (V : Type) := OInsert (old : option V) | ORemove (removed : option V) | OUpdate (err : option dict_err) | OGet (v : option V).
Arguments OInsert {V}. Arguments ORemove {V}. Arguments OUpdate {V}. Arguments OGet {V}.

Definition dict_step {V} (d : dict V) (op : dop V) : dict V * dobs V :=
  match op with
  | DInsert k v => let r := d_insert k v d in (fst r, OInsert (snd r))
  | DRemove k => let r := d_remove k d in (fst r, ORemove (snd r))
  | DUpdateKey k k' => match d_update_key k k' d with UOk d' => (d', OUpdate None) | UErr e => (d, OUpdate (Some e)) end
  | DGet k => (d, OGet (d_get k d))
  end.
Definition alist_step {V} (l : list (str * V)) (op : dop V) : list (str * V) * dobs V :=
  match op with
  | DInsert k v => (ainsert k v l, OInsert (alookup k l))
  | DRemove k => (aremove k l, ORemove (alookup k l))
  | DUpdateKey k k' => if amem k l then (if amem k' l then (l, OUpdate (Some ExistingEntry)) else (arename k k' l, OUpdate None))
                       else (l, OUpdate (Some MissingEntry))
  | DGet k => (l, OGet (alookup k l))
  end.
(* generic runner: final state and the observations in order *)
Fixpoint run_ops {S O Op} (step : S -> Op -> S * O) (s : S) (ops : list Op) : S * list O :=
  match ops with [] => (s, []) | op :: t => let r := step s op in let r' := run_ops step (fst r) t in (fst r', snd r :: snd r') end.
Definition run_dict {V} (d : dict V) (ops : list (dop V)) : dict V * list (dobs V) := run_ops dict_step d ops.
Definition run_alist {V} (l : list (str * V)) (ops : list (dop V)) : list (str * V) * list (dobs V) := run_ops alist_step l ops.
Definition observations {S O} (r : S * list O) : list O := snd r.

(* trace for the differential test against the real Dict: after every operation its result, d.iter() and d.len() *)
Record trace_entry (V : Type) := mkTrace { t_obs : dobs V; t_iter : list (str * V); t_len : N }.
Arguments mkTrace {V}. Arguments t_obs {V}. Arguments t_iter {V}. Arguments t_len {V}.
Fixpoint dict_trace_from {V} (d : dict V) (ops : list (dop V)) : list (trace_entry V) :=
  match ops with
  | [] => []
  | op :: t => let r := dict_step d op in mkTrace (snd r) (d_iter (fst r)) (N.of_nat (d_len (fst r))) :: dict_trace_from (fst r) t
  end.
Definition dict_trace_gen {V} (ops : list (dop V)) : list (trace_entry V) := dict_trace_from d_new ops.
Definition dopN := dop N.
Definition obs_t := trace_entry N.
Definition dict_trace : list dopN -> list obs_t := @dict_trace_gen N.

(* ------------------------------------------------------------------ RevisionMap *)
(* HashMap<K, LinkedList<V>>: association list with unique keys, a chain is a list, newest first *)
Definition rmap (V : Type) := list (str * list V).
Definition rm_new {V} : rmap V := [].
Definition rm_len {V} (m : rmap V) : nat := length m.
Definition rm_count_elements {V} (m : rmap V) : nat := fold_right (fun p acc => length (snd p) + acc) 0 m.
Definition rm_get {V} (k : str) (m : rmap V) : option (list V) := alookup k m.
Definition rm_chain_length {V} (k : str) (m : rmap V) : nat := match rm_get k m with Some c => length c | None => 0 end.
Definition rm_contains {V} (k : str) (m : rmap V) : bool := amem k m.
Definition rm_insert {V} (k : str) (v : V) (m : rmap V) : rmap V :=
  match alookup k m with
  | Some c => areplace k (v :: c) m            (* insert_in_chain: push_front *)
  | None => m ++ [(k, [v])]                    (* insert_new_chain *)
  end.
Definition rm_get_latest {V} (k : str) (m : rmap V) : option V := match rm_get k m with Some c => hd_error c | None => None end.
Definition rm_remove {V} (k : str) (m : rmap V) : rmap V * option (list V) := (aremove k m, alookup k m).
(* keep: `if n <= chain.len() { Some(chain.split_off(n)) } else { None }`: the KEY STAYS, also for n = 0 *)
Definition rm_keep {V} (k : str) (n : nat) (m : rmap V) : rmap V * option (list V) :=
  match alookup k m with
  | None => (m, None)
  | Some c => if n <=? length c then (areplace k (firstn n c) m, Some (skipn n c)) else (m, None)
  end.
Definition rm_retain {V} (f : str -> bool) (m : rmap V) : rmap V := filter (fun p => f (fst p)) m.

Inductive rop (V : Type) := RInsert (k : str) (v : V) | RKeep (k : str) (n : nat) | RRetain (f : str -> bool) | RRemove (k : str).
Arguments RInsert {V}. Arguments RKeep {V}. Arguments RRetain {V}. Arguments RRemove {V}.
Definition rm_step {V} (m : rmap V) (op : rop V) : rmap V :=
  match op with
  | RInsert k v => rm_insert k v m
  | RKeep k n => fst (rm_keep k n m)
  | RRetain f => rm_retain f m
  | RRemove k => fst (rm_remove k m)
  end.
Definition run_rmap {V} (ops : list (rop V)) : rmap V := fold_left rm_step ops rm_new.
Definition rop_keeps_some {V} (op : rop V) : Prop := match op with RKeep _ n => 1 <= n | _ => True end.

(* ------------------------------------------------------------------ RevisionVec *)
(* Vec<(K, LinkedList<T>)>: keys are NOT necessarily unique (see the comments in the Rust file) *)
Definition rvec (V : Type) := list (str * list V).
Definition rv_new {V} : rvec V := [].
Definition rv_len {V} (m : rvec V) : nat := length m.
Definition rv_count_elements {V} (m : rvec V) : nat := fold_right (fun p acc => length (snd p) + acc) 0 m.
Definition rv_create_chain_with_single_value {V} (k : str) (v : V) (m : rvec V) : rvec V := m ++ [(k, [v])].
Definition rv_insert_new_chain {V} (k : str) (c : list V) (m : rvec V) : rvec V :=
  match c with [] => m | _ :: _ => m ++ [(k, c)] end.                    (* if !new_chain.is_empty() *)
Definition rv_clear {V} (m : rvec V) : rvec V := [].
Definition rv_retain {V} (f : str -> bool) (m : rvec V) : rvec V := filter (fun p => f (fst p)) m.
Definition rv_iter {V} (m : rvec V) : list (str * list V) := m.
Definition rv_into_keys {V} (m : rvec V) : list str := map fst m.
Definition rv_keyed {V} (m : rvec V) : list (list (str * V)) := map (fun p => map (pair (fst p)) (snd p)) m.
Definition rv_flat_iter {V} (m : rvec V) : list (str * V) := flat_map (fun p => map (pair (fst p)) (snd p)) m.
(* revisions(): the (repaired) RevisionIterator of RevIter.v; None = not finished within [fuel] calls of next() *)
Definition rv_revisions {V} (fuel : nat) (m : rvec V) : option (list (list V)) := revisions_fuel true fuel (map snd m).
Definition rv_revisions_kv {V} (fuel : nat) (m : rvec V) : option (list (list (str * V))) := revisions_fuel true fuel (rv_keyed m).
Definition rv_revisions_fuel {V} (m : rvec V) : nat := S (maxlen (map snd m)).
(* bfs(): a queue of chain iterators; pop the front one, drop it if exhausted, else yield its head and push it back *)
Fixpoint bfs_fuel {V} (fuel : nat) (q : list (list V)) : list V :=
  match fuel with
  | O => []
  | S fu => match q with
            | [] => []
            | [] :: q' => bfs_fuel fu q'
            | (x :: t) :: q' => x :: bfs_fuel fu (q' ++ [t])
            end
  end.
Definition rv_bfs {V} (m : rvec V) : list V := bfs_fuel (rv_count_elements m + rv_len m) (map snd m).
(* FromIterator<(K, LinkedList<T>)> collects the chains AS THEY ARE (empty ones included); FromIterator<(K,T)> makes singletons *)
Definition rv_from_chains {V} (l : list (str * list V)) : rvec V := l.
Definition rv_from_values {V} (l : list (str * V)) : rvec V := map (fun kv => (fst kv, [snd kv])) l.

Inductive vop (V : Type) := VCreate (k : str) (v : V) | VInsertChain (k : str) (c : list V) | VRetain (f : str -> bool) | VClear.
Arguments VCreate {V}. Arguments VInsertChain {V}. Arguments VRetain {V}. Arguments VClear {V}.
Definition rv_step {V} (m : rvec V) (op : vop V) : rvec V :=
  match op with
  | VCreate k v => rv_create_chain_with_single_value k v m
  | VInsertChain k c => rv_insert_new_chain k c m
  | VRetain f => rv_retain f m
  | VClear => rv_clear m
  end.
Definition run_vec {V} (ops : list (vop V)) : rvec V := fold_left rv_step ops rv_new.
