(* A concrete, computable instance of every Section variable of CryptoKem.v: the hypotheses of the symbolic KEM
   model are jointly satisfiable ([scheme_inhabited]); every main theorem is instantiated and exercised on a
   non-trivial example; the model is executed ([vm_compute]) on classic, mixed and hybridized runs.

   F  := Qc (canonical rationals, stdlib field Qcft, decidable equality Qc_eq_dec)
   D  := tr, a free term algebra: hashes are constructors (hence injective, with disjoint ranges),
         mask s p := Nd KMask s p, unmask cancels exactly the pad it was masked with;
   KEM: dk = ek = N, ciphertext = (ek, coins), shared secret = a constructor; decapsulation with another key
        gives an (always different) "implicit rejection" term. *)
From Coq Require Import List Bool ZArith NArith QArith Qcanon Field String Lia.
From CC Require Import CryptoKemBase CryptoKem.
Import ListNotations.

Inductive kind := KH | KJt | KJk | KMask | KUnm | KCons | KPt | KDg | KCt | KSs | KRej.
Inductive tr := Lf (n : N) | Lz (z : Z) | Nd (k : kind) (a b : tr).
Definition kind_eq_dec : forall a b : kind, {a = b} + {a <> b}. Proof. decide equality. Defined.
Definition tr_eq_dec : forall a b : tr, {a = b} + {a <> b}.
Proof. decide equality; [apply N.eq_dec|apply Z.eq_dec|apply kind_eq_dec]. Defined.
Fixpoint tsize (t : tr) : nat := match t with Nd _ a b => S (tsize a + tsize b) | _ => 1 end.

Definition KCi : Type := (N * N)%type.
Definition sym : Type := symbol Qc tr KCi.

Definition enc_q (q : Qc) : tr := Nd KPt (Lz (Qnum q)) (Lf (Npos (Qden q))).
Definition enc_sym (x : sym) : tr :=
  match x with
  | SPoint p => enc_q p
  | SDigest d => Nd KDg d (Lf 0)
  | SKemCt e => Nd KCt (Lf (fst e)) (Lf (snd e))
  end.
Definition enc_list (l : list sym) : tr := fold_right (fun x acc => Nd KCons (enc_sym x) acc) (Lf 0) l.
Definition Hi (l : list sym) : tr := Nd KH (enc_list l) (Lf 0).
Definition Jtag_i (l : list sym) : tr := Nd KJt (enc_list l) (Lf 0).
Definition Jkey_i (l : list sym) : tr := Nd KJk (enc_list l) (Lf 0).
Definition G_i (d : tr) : Qc := Q2Qc (inject_Z (Z.of_nat (tsize d))).
Definition mask_i (s p : tr) : tr := Nd KMask s p.
Definition unmask_i (f p' : tr) : tr :=
  match f with
  | Nd KMask s p => if tr_eq_dec p p' then s else Nd KUnm f p'
  | _ => Nd KUnm f p'
  end.
Definition kem_pub_i (dk : N) : N := dk.
Definition kem_enc_i (ek rnd : N) : KCi * tr := ((ek, rnd), Nd KSs (Lf ek) (Lf rnd)).
Definition kem_dec_i (dk : N) (e : KCi) : tr :=
  if N.eq_dec dk (fst e) then Nd KSs (Lf (fst e)) (Lf (snd e)) else Nd KRej (Lf dk) (Nd KCt (Lf (fst e)) (Lf (snd e))).

Lemma enc_q_inj a b : enc_q a = enc_q b -> a = b.
Proof. unfold enc_q. intros E. injection E as E1 E2. apply Qc_is_canon. unfold Qeq. rewrite E1, E2. reflexivity. Qed.
Lemma enc_sym_inj a b : enc_sym a = enc_sym b -> a = b.
Proof.
  destruct a as [p|d|[e1 e2]], b as [p'|d'|[e1' e2']]; unfold enc_sym, enc_q; cbn [fst snd]; intros E; try discriminate.
  - f_equal. apply enc_q_inj. exact E.
  - injection E as ->. reflexivity.
  - injection E as -> ->. reflexivity.
Qed.
Lemma enc_list_inj : forall a b, enc_list a = enc_list b -> a = b.
Proof. induction a as [|x a IH]; intros [|y b] E; cbn in E; try discriminate; [reflexivity|].
  injection E as E1 E2. f_equal; [apply enc_sym_inj; exact E1|apply IH; exact E2]. Qed.
Lemma Hi_inj a b : Hi a = Hi b -> a = b.
Proof. unfold Hi. intros E. injection E as E. apply enc_list_inj. exact E. Qed.
Lemma Jtag_i_inj a b : Jtag_i a = Jtag_i b -> a = b.
Proof. unfold Jtag_i. intros E. injection E as E. apply enc_list_inj. exact E. Qed.
Lemma unmask_mask_i s p : unmask_i (mask_i s p) p = s.
Proof. unfold unmask_i, mask_i. destruct (tr_eq_dec p p) as [_|n]; [reflexivity|contradiction n; reflexivity]. Qed.
Lemma unmask_mask_only_i s p p' : unmask_i (mask_i s p) p' = s -> p' = p.
Proof. unfold unmask_i, mask_i. destruct (tr_eq_dec p p') as [e|_]; [intros _; symmetry; exact e|].
  intros E. apply (f_equal tsize) in E. cbn in E. lia. Qed.
Lemma kem_correct_i dk rnd : kem_dec_i dk (fst (kem_enc_i (kem_pub_i dk) rnd)) = snd (kem_enc_i (kem_pub_i dk) rnd).
Proof. unfold kem_dec_i, kem_enc_i, kem_pub_i. cbn [fst snd]. destruct (N.eq_dec dk dk) as [_|n]; [reflexivity|contradiction n; reflexivity]. Qed.
Lemma kem_robust_i dk ek rnd : kem_dec_i dk (fst (kem_enc_i ek rnd)) = snd (kem_enc_i ek rnd) -> ek = kem_pub_i dk.
Proof. unfold kem_dec_i, kem_enc_i, kem_pub_i. cbn [fst snd]. destruct (N.eq_dec dk ek) as [e|_]; [intros _; symmetry; exact e|discriminate]. Qed.

(* All Section hypotheses of CryptoKem.v hold together for this instance (the three decidable equalities are
   the definitions Qc_eq_dec, tr_eq_dec, N.eq_dec). *)
Example scheme_inhabited :
  field_theory 0%Qc 1%Qc Qcplus Qcmult Qcminus Qcopp Qcdiv Qcinv (@eq Qc) /\
  (forall a b, Hi a = Hi b -> a = b) /\
  (forall a b, Jtag_i a = Jtag_i b -> a = b) /\
  (forall s p, unmask_i (mask_i s p) p = s) /\
  (forall s p p', unmask_i (mask_i s p) p' = s -> p' = p) /\
  (forall dk rnd, kem_dec_i dk (fst (kem_enc_i (kem_pub_i dk) rnd)) = snd (kem_enc_i (kem_pub_i dk) rnd)) /\
  (forall dk ek rnd, kem_dec_i dk (fst (kem_enc_i ek rnd)) = snd (kem_enc_i ek rnd) -> ek = kem_pub_i dk).
Proof.
  split; [exact Qcft|]. split; [exact Hi_inj|]. split; [exact Jtag_i_inj|]. split; [exact unmask_mask_i|].
  split; [exact unmask_mask_only_i|]. split; [exact kem_correct_i|exact kem_robust_i].
Qed.
Print Assumptions scheme_inhabited.

(* ---------------------------------------------------------------------------------------------------------- *)
(* the instantiated model *)
Definition rsk_i : Type := rsk Qc N.
Definition rpk_i : Type := rpk Qc N.
Definition xenc_i : Type := xenc Qc tr KCi.
Definition usk_i : Type := usk Qc N.
Definition msk_i : Type := msk Qc N N.
Definition cpk_i : Qc -> rsk_i -> rpk_i := cpk Qc Qcmult N N kem_pub_i.
Definition dot_i : list Qc -> list Qc -> Qc := dot Qc 0%Qc Qcplus Qcmult.
Definition all_hyb_i : list (rpk_i * N) -> bool := all_hyb Qc N N.
Definition gen_id_i : Qc -> list Qc -> list Qc -> option (list Qc) :=
  generate_user_id Qc 0%Qc Qcplus Qcmult Qcminus Qcdiv Qc_eq_dec.
Definition encaps_i : list Qc -> list (rpk_i * N) -> tr -> option (tr * xenc_i) :=
  encaps Qc Qcmult tr KCi N N Hi Jtag_i Jkey_i G_i mask_i kem_enc_i.
Definition decaps_i : usk_i -> xenc_i -> option tr :=
  decaps Qc 0%Qc Qcplus Qcmult Qc_eq_dec tr tr_eq_dec KCi N Hi Jtag_i Jkey_i G_i unmask_i kem_dec_i.
Definition full_decaps_i : msk_i -> xenc_i -> option (tr * list N) :=
  full_decaps Qc 0%Qc Qcmult Qcdiv Qc_eq_dec tr tr_eq_dec KCi N N N.eq_dec Hi Jtag_i Jkey_i G_i unmask_i kem_dec_i.
Definition right_opens_i : msk_i -> list (rpk_i * N) -> N -> Prop := right_opens Qc Qcmult N N N N kem_pub_i.

(* the instantiated theorems (this also checks that the hypotheses listed above are all that is needed) *)
Definition user_id_relation_i := user_id_relation Qc 0%Qc 1%Qc Qcplus Qcmult Qcminus Qcopp Qcdiv Qcinv Qcft.
Definition generate_user_id_sound_i :=
  generate_user_id_sound Qc 0%Qc 1%Qc Qcplus Qcmult Qcminus Qcopp Qcdiv Qcinv Qcft Qc_eq_dec.
Definition decaps_correct_c_i :=
  decaps_correct_c Qc 0%Qc 1%Qc Qcplus Qcmult Qcminus Qcopp Qcdiv Qcinv Qcft Qc_eq_dec tr tr_eq_dec KCi N N N
    Hi Jtag_i Jkey_i G_i mask_i unmask_i kem_enc_i kem_dec_i Hi_inj Jtag_i_inj unmask_mask_i unmask_mask_only_i.
Definition decaps_correct_h_i :=
  decaps_correct_h Qc 0%Qc 1%Qc Qcplus Qcmult Qcminus Qcopp Qcdiv Qcinv Qcft Qc_eq_dec tr tr_eq_dec KCi N N N
    Hi Jtag_i Jkey_i G_i mask_i unmask_i kem_pub_i kem_enc_i kem_dec_i
    Hi_inj Jtag_i_inj unmask_mask_i unmask_mask_only_i kem_correct_i.
Definition decaps_sound_i :=
  decaps_sound Qc 0%Qc 1%Qc Qcplus Qcmult Qcminus Qcopp Qcdiv Qcinv Qcft Qc_eq_dec tr tr_eq_dec KCi N N N
    Hi Jtag_i Jkey_i G_i mask_i unmask_i kem_enc_i kem_dec_i Hi_inj Jtag_i_inj unmask_mask_i unmask_mask_only_i.
Definition decaps_sound_scalar_i :=
  decaps_sound_scalar Qc 0%Qc 1%Qc Qcplus Qcmult Qcminus Qcopp Qcdiv Qcinv Qcft Qc_eq_dec tr tr_eq_dec KCi N N N
    Hi Jtag_i Jkey_i G_i mask_i unmask_i kem_pub_i kem_enc_i kem_dec_i
    Hi_inj Jtag_i_inj unmask_mask_i unmask_mask_only_i.
Definition decaps_sound_pk_i :=
  decaps_sound_pk Qc 0%Qc 1%Qc Qcplus Qcmult Qcminus Qcopp Qcdiv Qcinv Qcft Qc_eq_dec tr tr_eq_dec KCi N N N
    Hi Jtag_i Jkey_i G_i mask_i unmask_i kem_pub_i kem_enc_i kem_dec_i
    Hi_inj Jtag_i_inj unmask_mask_i unmask_mask_only_i kem_robust_i.
Definition tag_commits_i :=
  tag_commits Qc 0%Qc Qcplus Qcmult Qc_eq_dec tr tr_eq_dec KCi N N N
    Hi Jtag_i Jkey_i G_i mask_i unmask_i kem_enc_i kem_dec_i Hi_inj Jtag_i_inj.
Definition full_decaps_spec_i :=
  full_decaps_spec Qc 0%Qc 1%Qc Qcplus Qcmult Qcminus Qcopp Qcdiv Qcinv Qcft Qc_eq_dec tr tr_eq_dec KCi N N N N N.eq_dec
    Hi Jtag_i Jkey_i G_i mask_i unmask_i kem_pub_i kem_enc_i kem_dec_i
    Hi_inj Jtag_i_inj unmask_mask_i unmask_mask_only_i kem_correct_i kem_robust_i.

(* ---------------------------------------------------------------------------------------------------------- *)
(* A small system: binding scalar s = 5, tracers t = [2; 3] (tracing level 1), three rights. *)
Definition q (z : Z) : Qc := Q2Qc (inject_Z z).
Ltac qc := apply Qc_is_canon; vm_compute; reflexivity.
Ltac qc_neq := let E := fresh in intros E; apply (f_equal (fun x : Qc => Qnum x)) in E; vm_compute in E; discriminate E.

Definition s0 : Qc := q 5.
Definition ts0 : list Qc := [q 2; q 3].
Definition r1 : rsk_i := (q 11, None).            (* right 1: classic *)
Definition r2 : rsk_i := (q 13, Some 100%N).      (* right 2: hybridized *)
Definition r3 : rsk_i := (q 17, Some 200%N).      (* right 3: hybridized *)
Definition r2old : rsk_i := (q 19, Some 101%N).   (* right 2: an older, deactivated secret *)
Definition id0 : list Qc := [q 7; Qcdiv (Qcminus s0 (Qcmult (q 2) (q 7))) (q 3)].    (* a_1 = 7, a_2 = (5-14)/3 = -3 *)
Definition S0 : tr := Lf 42.
Definition msk0 : msk_i :=
  {| m_s := s0; m_ts := ts0;
     m_secrets := [(1%N, [(true, r1)]); (2%N, [(true, r2); (false, r2old)]); (3%N, [(true, r3)]); (4%N, [(true, (q 23, None))])] |}.
(* user A holds rights 2 and 3 (hybridized secrets); user B holds right 1 and the classic half of right 3 *)
Definition uskA : usk_i := {| u_markers := id0; u_ps := ts0; u_secrets := [r3; r2] |}.
Definition uskB : usk_i := {| u_markers := id0; u_ps := ts0; u_secrets := [r1; (q 17, None)] |}.
(* classic encapsulation for rights {1, 2} (right 1 is classic, so the mode is classic); hybridized one for {2, 3} *)
Definition targets_c : list (rpk_i * N) := [((Qcmult s0 (q 11), None), 7%N); ((Qcmult s0 (q 13), Some (kem_pub_i 100%N)), 8%N)].
Definition targets_h : list (rpk_i * N) := [((Qcmult s0 (q 13), Some (kem_pub_i 100%N)), 9%N); ((Qcmult s0 (q 17), Some (kem_pub_i 200%N)), 10%N)].

(* C17 *)
Example user_id_ex : gen_id_i s0 ts0 [q 7] = Some id0 /\ dot_i id0 ts0 = s0.
Proof. assert (E : gen_id_i s0 ts0 [q 7] = Some id0) by (vm_compute; reflexivity).
  split; [exact E|]. exact (generate_user_id_sound_i _ _ _ _ E). Qed.
Example user_id_relation_ex : dot_i ([q 7] ++ [Qcdiv (Qcminus s0 (dot_i [q 2] [q 7])) (q 3)]) ([q 2] ++ [q 3]) = s0.
Proof. apply user_id_relation_i; [qc_neq|reflexivity]. Qed.

(* direct execution of the model *)
Example run_classic_mixed :      (* hybridized secret r2 of user A opens a CLASSIC encapsulation through its scalar *)
  match encaps_i ts0 targets_c S0 with
  | Some (key, x) => decaps_i uskA x = Some key /\ decaps_i uskB x = Some key /\ (exists fs, x_encs x = CEncs fs)
  | None => False
  end.
Proof. vm_compute. split; [reflexivity|]. split; [reflexivity|]. eexists. reflexivity. Qed.
Example run_hybrid :             (* user A opens; user B (only the classic half of right 3) does not *)
  match encaps_i ts0 targets_h S0 with
  | Some (key, x) => decaps_i uskA x = Some key /\ decaps_i uskB x = None /\ (exists es, x_encs x = HEncs es)
  | None => False
  end.
Proof. vm_compute. split; [reflexivity|]. split; [reflexivity|]. eexists. reflexivity. Qed.
Example run_full_decaps :        (* the MSK recovers the key and exactly the targeted rights *)
  match encaps_i ts0 targets_c S0, encaps_i ts0 targets_h S0 with
  | Some (kc, xc), Some (kh, xh) =>
    full_decaps_i msk0 xc = Some (kc, [1%N; 2%N]) /\ full_decaps_i msk0 xh = Some (kh, [2%N; 3%N])
  | _, _ => False
  end.
Proof. vm_compute. split; reflexivity. Qed.

(* C01, through the theorems: the premises are satisfiable on this instance *)
Example decaps_correct_c_ex key x : encaps_i ts0 targets_c S0 = Some (key, x) -> decaps_i uskA x = Some key.
Proof.
  apply (decaps_correct_c_i s0 ts0 uskA targets_c S0 (q 13) (Some 100%N) (Some (kem_pub_i 100%N)) 8%N).
  - exact (proj2 user_id_ex).
  - reflexivity.
  - right. left. reflexivity.
  - right. left. reflexivity.
  - reflexivity.
Qed.
Example decaps_correct_h_ex key x : encaps_i ts0 targets_h S0 = Some (key, x) -> decaps_i uskA x = Some key.
Proof.
  apply (decaps_correct_h_i s0 ts0 uskA targets_h S0 (q 17) 200%N 10%N).
  - exact (proj2 user_id_ex).
  - reflexivity.
  - left. reflexivity.
  - right. left. reflexivity.
  - reflexivity.
Qed.

(* C02/C07 soundness: the premises hold for user A on the classic run, so user A holds the scalar of a target *)
Definition tsec_c : list (rsk_i * N) := [(r1, 7%N); (r2, 8%N)].
Example decaps_sound_ex : exists key x key',
  encaps_i ts0 (map (fun p => (cpk_i s0 (fst p), snd p)) tsec_c) S0 = Some (key, x) /\ decaps_i uskA x = Some key' /\
  key' = key /\ exists su rk rnd, In su (u_secrets uskA) /\ In (rk, rnd) tsec_c /\ fst su = fst rk.
Proof.
  destruct (encaps_i ts0 (map (fun p => (cpk_i s0 (fst p), snd p)) tsec_c) S0) as [[key x]|] eqn:E; [|vm_compute in E; discriminate E].
  assert (Hd : decaps_i uskA x = Some key) by (vm_compute in E; injection E as <- <-; vm_compute; reflexivity).
  exists key, x, key. split; [reflexivity|]. split; [exact Hd|].
  apply (decaps_sound_scalar_i s0 ts0 tsec_c S0 key x uskA key); [exact (proj2 user_id_ex)|qc_neq|qc_neq|exact E|exact Hd].
Qed.
Example decaps_sound_pk_ex : exists key x, encaps_i ts0 targets_h S0 = Some (key, x) /\
  exists su tg, In su (u_secrets uskA) /\ In tg targets_h /\ fst tg = cpk_i s0 su.
Proof.
  destruct (encaps_i ts0 targets_h S0) as [[key x]|] eqn:E; [|vm_compute in E; discriminate E].
  assert (Hd : decaps_i uskA x = Some key) by (exact (decaps_correct_h_ex key x E)).
  exists key, x. split; [reflexivity|].
  apply (decaps_sound_pk_i s0 ts0 targets_h S0 key x uskA key); [exact (proj2 user_id_ex)|qc_neq|reflexivity|exact E|exact Hd].
Qed.

(* C07 tag commitment: any x' with the honest tag that decapsulates IS the honest encapsulation; e.g. moving
   the classic entries under the hybridized constructor, or changing a trap, makes decapsulation fail. *)
Example tag_commits_ex key x : encaps_i ts0 targets_c S0 = Some (key, x) ->
  forall x' k', decaps_i uskA x' = Some k' -> x_tag x' = x_tag x -> x' = x /\ k' = key.
Proof. intros E x' k'. exact (tag_commits_i ts0 targets_c S0 key x uskA x' k' E). Qed.
Example tamper_fails :
  match encaps_i ts0 targets_c S0 with
  | Some (_, x) =>
    decaps_i uskA {| x_tag := x_tag x; x_c := [q 1; q 1]; x_encs := x_encs x |} = None /\
    decaps_i uskA {| x_tag := x_tag x; x_c := x_c x;
                     x_encs := match x_encs x with CEncs fs => HEncs (map (fun f => ((100%N, 8%N), f)) fs) | e => e end |} = None
  | None => False
  end.
Proof. vm_compute. split; reflexivity. Qed.

(* full_decaps_spec: premises satisfiable; conclusion evaluated through the theorem *)
Example full_decaps_spec_ex key x : encaps_i ts0 targets_h S0 = Some (key, x) ->
  match full_decaps_i msk0 x with
  | Some (key', rs) => key' = key /\ NoDup rs /\ forall rt, In rt rs <-> right_opens_i msk0 targets_h rt
  | None => forall rt, ~ right_opens_i msk0 targets_h rt
  end.
Proof. apply (full_decaps_spec_i msk0 (q 2) [q 3] targets_h S0 key x); [reflexivity|qc_neq|qc_neq]. Qed.

(* the hash layouts, as used by the model (see [hin] in CryptoKem.v) *)
Example hash_layout_value : hash_layout =
  [ ("T_classic", ["c*"]); ("T_hybrid", ["c*"; "E*"]); ("U", ["T"; "F*"]);
    ("H_classic", ["K1"; "T"]); ("H_hybrid", ["K1"; "K2"; "T"]); ("J", ["S"; "U"]); ("G", ["S"]) ]%string.
Proof. reflexivity. Qed.
Eval vm_compute in hash_layout.

Print Assumptions user_id_ex.
Print Assumptions run_classic_mixed.
Print Assumptions run_hybrid.
Print Assumptions run_full_decaps.
Print Assumptions decaps_correct_c_ex.
Print Assumptions decaps_correct_h_ex.
Print Assumptions decaps_sound_ex.
Print Assumptions decaps_sound_pk_ex.
Print Assumptions tag_commits_ex.
Print Assumptions full_decaps_spec_ex.
