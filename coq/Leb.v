(* Prototype (scratch): LEB128 as in crate leb128 0.2.7, round trip and unique decoding *)
From Coq Require Import List NArith Bool Arith Lia.
Require Import Policy Structure.
Import ListNotations.
Open Scope N_scope.

Fixpoint leb_read_fuel (fuel : nat) (shift acc : N) (bs : list N) : option (N * list N) :=
  match fuel with
  | O => None
  | S f =>
    match bs with
    | [] => None
    | b :: t =>
        if (shift =? 63) && negb (b =? 0) && negb (b =? 1) then None
        else let acc' := acc + (b mod 128) * 2 ^ shift in
             if b <? 128 then Some (acc', t) else leb_read_fuel f (shift + 7) acc' t
    end
  end.
Definition leb_read (bs : list N) : option (N * list N) := leb_read_fuel 11 0 0 bs.

Lemma leb_rt_gen : forall fw fr m shift acc rest,
  (fw < fr)%nat -> m < 128 ^ N.of_nat (S fw) -> m * 2 ^ shift < 2 ^ 64 ->
  leb_read_fuel fr shift acc (leb128_fuel fw m ++ rest) = Some (acc + m * 2 ^ shift, rest).
Proof.
  induction fw as [|fw IH]; intros fr m shift acc rest Hf Hm Hov.
  - destruct fr as [|fr]; [lia|]. cbn [leb128_fuel app leb_read_fuel].
    change (128 ^ N.of_nat 1) with 128 in Hm.
    assert (Hchk : (shift =? 63) && negb (m =? 0) && negb (m =? 1) = false).
    { destruct (shift =? 63) eqn:E; [|reflexivity]. apply N.eqb_eq in E. subst shift.
      change (2 ^ 64) with (2 * 2 ^ 63) in Hov. assert (m < 2) by nia.
      destruct (m =? 0) eqn:E0; [reflexivity|]. destruct (m =? 1) eqn:E1; [reflexivity|].
      apply N.eqb_neq in E0, E1. lia. }
    rewrite Hchk. rewrite N.mod_small by lia. apply N.ltb_lt in Hm. rewrite Hm. reflexivity.
  - destruct fr as [|fr]; [lia|]. cbn [leb128_fuel].
    destruct (m <? 128) eqn:Elt.
    + cbn [app leb_read_fuel]. apply N.ltb_lt in Elt.
      assert (Hchk : (shift =? 63) && negb (m =? 0) && negb (m =? 1) = false).
      { destruct (shift =? 63) eqn:E; [|reflexivity]. apply N.eqb_eq in E. subst shift.
        change (2 ^ 64) with (2 * 2 ^ 63) in Hov. assert (m < 2) by nia.
        destruct (m =? 0) eqn:E0; [reflexivity|]. destruct (m =? 1) eqn:E1; [reflexivity|].
        apply N.eqb_neq in E0, E1. lia. }
      rewrite Hchk. rewrite N.mod_small by lia. apply N.ltb_lt in Elt. rewrite Elt. reflexivity.
    + apply N.ltb_ge in Elt. cbn [app leb_read_fuel].
      pose proof (N.div_mod m 128 ltac:(lia)) as Hdm.
      pose proof (N.mod_lt m 128 ltac:(lia)) as Hr.
      set (q := m / 128) in *. set (r := m mod 128) in *.
      assert (Hs : shift < 57).
      { destruct (N.lt_ge_cases shift 57) as [H|H]; [exact H|exfalso].
        assert (2 ^ 57 <= 2 ^ shift) by (apply N.pow_le_mono_r; lia).
        change (2 ^ 64) with (128 * 2 ^ 57) in Hov. nia. }
      assert (Hne : (shift =? 63) = false) by (apply N.eqb_neq; lia).
      rewrite Hne. cbn [andb].
      replace ((r + 128) mod 128) with r.
      2:{ rewrite N.add_mod by lia. rewrite N.mod_same by lia. rewrite N.add_0_r. rewrite N.mod_mod by lia. unfold r. rewrite N.mod_mod by lia. reflexivity. }
      assert (Hb : (r + 128 <? 128) = false) by (apply N.ltb_ge; lia). rewrite Hb.
      rewrite IH.
      * f_equal. f_equal. rewrite N.pow_add_r. change (2 ^ 7) with 128.
        replace (m * 2 ^ shift) with ((128 * q + r) * 2 ^ shift) by (rewrite <- Hdm; reflexivity). ring.
      * lia.
      * rewrite Nnat.Nat2N.inj_succ, N.pow_succ_r' in Hm. unfold q.
        apply N.div_lt_upper_bound; [lia|]. exact Hm.
      * rewrite N.pow_add_r. change (2 ^ 7) with 128. nia.
Qed.

Theorem leb_roundtrip n rest : n < 2 ^ 64 -> leb_read (leb128 n ++ rest) = Some (n, rest).
Proof.
  intros H. unfold leb_read, leb128. rewrite leb_rt_gen.
  - f_equal. f_equal. rewrite N.pow_0_r. lia.
  - lia.
  - change (128 ^ N.of_nat 11) with (2 ^ 77). eapply N.lt_le_trans; [exact H|]. apply N.pow_le_mono_r; lia.
  - rewrite N.pow_0_r. lia.
Qed.

(* unique decoding of a concatenation of LEB128 numbers: rights are injective *)
Theorem right_bytes_inj : forall r1 r2,
  Forall (fun n => n < 2 ^ 64) r1 -> Forall (fun n => n < 2 ^ 64) r2 -> right_bytes r1 = right_bytes r2 -> r1 = r2.
Proof.
  unfold right_bytes.
  induction r1 as [|x r1 IH]; intros r2 H1 H2 E.
  - destruct r2 as [|y r2]; [reflexivity|]. cbn [flat_map] in E. exfalso.
    inversion H2; subst. pose proof (leb_roundtrip y (flat_map leb128 r2) ltac:(assumption)) as R. rewrite <- E in R. discriminate.
  - destruct r2 as [|y r2].
    + cbn [flat_map] in E. exfalso. inversion H1; subst. pose proof (leb_roundtrip x (flat_map leb128 r1) ltac:(assumption)) as R. rewrite E in R. discriminate.
    + cbn [flat_map] in E. inversion H1; inversion H2; subst.
      pose proof (leb_roundtrip x (flat_map leb128 r1) ltac:(assumption)) as R1.
      pose proof (leb_roundtrip y (flat_map leb128 r2) ltac:(assumption)) as R2.
      rewrite E in R1. rewrite R1 in R2. inversion R2; subst. f_equal. apply IH; assumption.
Qed.
Print Assumptions right_bytes_inj.
