(* End-to-end statements of C01 / C02 on the key-management state machine, part 3:
   the plain sequence  OUpdate ; OKeygen UP ; OEncaps j EP ; ODecaps k e  with what the caller observes,
   and a non-vacuity example on a structure with one hierarchy (S : l < h) and one anarchy (D : {a, b}). *)
From Coq Require Import List NArith Bool Arith Lia.
From CC Require Import Policy Structure Keys KeysMachine SelProofs GoodProofs AssocLemmas
                       CoverProofs1 CoverProofs2 CoverPolicy DisabledProofs WfProofs
                       KInv1 KInv5 KInv7 E2E1 E2E2.
Import ListNotations.
Local Open Scope N_scope.

(* ---------------------------------------------------------------- a key always holds at least one right *)
Lemma to_dnf_ne p : to_dnf p <> [].
Proof.
  induction p as [|a|l IHl r IHr|l IHl r IHr]; cbn [to_dnf]; try discriminate.
  - destruct (to_dnf l) as [|vl tl]; [contradiction|]. destruct (to_dnf r) as [|vr tr]; [contradiction|]. cbn. discriminate.
  - destruct (to_dnf l) as [|vl tl]; [contradiction|]. cbn. discriminate.
Qed.
Lemma combine_ne ds : combine ds <> [].
Proof. induction ds as [|d ds IH]; cbn [combine]; [discriminate|]. destruct (combine ds); [contradiction|cbn; discriminate]. Qed.
Lemma complementary_points_ne st U ps : complementary_points st U = Ok ps -> ps <> [].
Proof.
  unfold complementary_points. destruct (semantic_space st U []) as [sem| | |]; try discriminate. intros H. inversion H; subst; clear H.
  pose proof (combine_ne (map snd (filter (fun d => negb (amem (fst d) sem)) (dims st)))) as H1.
  pose proof (combine_ne (map snd sem)) as H2.
  destruct (combine (map snd (filter (fun d => negb (amem (fst d) sem)) (dims st)))) as [|[[pre h] e] t1]; [contradiction|].
  destruct (combine (map snd sem)) as [|[[suf h'] e'] t2]; [contradiction|]. cbn. discriminate.
Qed.
Lemma complementary_rights_ne st up rs : complementary_rights st up = Ok rs -> rs <> [].
Proof.
  unfold complementary_rights. pose proof (to_dnf_ne up) as Hd. destruct (to_dnf up) as [|U dnf]; [contradiction|]. cbn [collect_clauses].
  destruct (complementary_points st U) as [psU| | |] eqn:EU; try discriminate.
  destruct (collect_clauses st dnf) as [r| | |]; try discriminate. intros H. inversion H; subst; clear H.
  pose proof (complementary_points_ne _ _ _ EU) as Hne. destruct psU as [|p0 psU]; [contradiction|]. cbn [app map].
  intros E. assert (Hin : In (right_of_point p0) (dedup (right_of_point p0 :: map right_of_point (psU ++ r)))) by (apply (proj2 (dedup_In _ _)); left; reflexivity).
  rewrite E in Hin. destruct Hin.
Qed.

Lemma encaps_usks s j p : st_usks (fst (step fixed s (OEncaps j p))) = st_usks s.
Proof.
  cbn [step]. destruct (nth_error (st_mpks s) j) as [pk|]; [|reflexivity]. destruct (enc_rights fixed (p_st pk) p) as [rs|]; [|reflexivity].
  destruct (encaps_rights pk rs (st_ctr s)) as [[x|] c]; reflexivity.
Qed.

(* ---------------------------------------------------------------- the plain sequence, with the observation *)
Lemma plain_setting s0 UP EP du dx :
  let s1 := fst (step fixed s0 OUpdate) in
  let j := length (st_mpks s0) in
  let s2 := fst (step fixed s1 (OKeygen UP)) in
  let s3 := fst (step fixed s2 (OEncaps j EP)) in
  let k := length (st_usks s0) in
  let e := length (st_encs s0) in
  let u := last (st_usks s2) du in
  let x := last (st_encs s3) dx in
  snd (step fixed s0 OUpdate) = ObOk -> snd (step fixed s1 (OKeygen UP)) = ObOk -> snd (step fixed s2 (OEncaps j EP)) = ObOk ->
  nth_error (st_usks s3) k = Some u /\ nth_error (st_encs s3) e = Some x.
Proof.
  intros s1 j s2 s3 k e u x Hok HK HE. subst s1 j s2 s3 k e u x.
  destruct (update_shape s0 Hok) as (_ & _ & Hus & Hen).
  destruct (keygen_shape _ UP HK) as (rs & chs & _ & _ & _ & _ & Hen2).
  pose proof (keygen_last _ UP du HK) as Eu. set (u := last _ du) in *.
  pose proof (encaps_last _ _ EP dx HE) as Ex. set (x := last _ dx) in *.
  split.
  - rewrite encaps_usks, Eu, Hus. rewrite nth_error_app2 by lia. rewrite Nat.sub_diag. reflexivity.
  - rewrite Ex, Hen2, Hen. rewrite nth_error_app2 by lia. rewrite Nat.sub_diag. reflexivity.
Qed.

Theorem C01_complete_plain s0 UP EP up ep du dx :
  let s1 := fst (step fixed s0 OUpdate) in
  let st := m_st (st_msk s1) in
  let j := length (st_mpks s0) in
  let s2 := fst (step fixed s1 (OKeygen UP)) in
  let s3 := fst (step fixed s2 (OEncaps j EP)) in
  let k := length (st_usks s0) in
  let e := length (st_encs s0) in
  let u := last (st_usks s2) du in
  let x := last (st_encs s3) dx in
  reach s0 -> snd (step fixed s0 OUpdate) = ObOk ->
  snd (step fixed s1 (OKeygen UP)) = ObOk -> snd (step fixed s2 (OEncaps j EP)) = ObOk ->
  parse true UP = Ok up -> parse true EP = Ok ep ->
  (forall U, In U (to_dnf up) -> NoDup (map qdim U)) -> (forall E, In E (to_dnf ep) -> NoDup (map qdim E)) ->
  (exists U E, In U (to_dnf up) /\ In E (to_dnf ep) /\ covers st U E) ->
  nth_error (st_usks s3) k = Some u /\ nth_error (st_encs s3) e = Some x /\
  decaps fixed u x = Some (x_seed x) /\
  snd (step fixed s3 (ODecaps k e)) = ObSome (x_seed x).
Proof.
  intros s1 st j s2 s3 k e u x Hr Hok HK HE Hup Hep HU HEn Hcov.
  pose proof (plain_setting s0 UP EP du dx Hok HK HE) as [Nu Nx]. change (nth_error (st_usks s3) k = Some u) in Nu. change (nth_error (st_encs s3) e = Some x) in Nx.
  assert (Hd : decaps fixed u x = Some (x_seed x)).
  { apply (C01_complete s0 [] [] UP EP up ep du dx); try assumption; constructor. }
  split; [exact Nu|]. split; [exact Nx|]. split; [exact Hd|].
  cbn [step]. rewrite Nu, Nx. destruct (u_chains u) eqn:Ec.
  - exfalso. unfold decaps in Hd. rewrite Ec in Hd. cbn in Hd. discriminate.
  - rewrite Hd. reflexivity.
Qed.

Theorem C02_sound_plain s0 UP EP up ep du dx :
  let s1 := fst (step fixed s0 OUpdate) in
  let st := m_st (st_msk s1) in
  let j := length (st_mpks s0) in
  let s2 := fst (step fixed s1 (OKeygen UP)) in
  let s3 := fst (step fixed s2 (OEncaps j EP)) in
  let k := length (st_usks s0) in
  let e := length (st_encs s0) in
  let u := last (st_usks s2) du in
  let x := last (st_encs s3) dx in
  reach s0 -> snd (step fixed s0 OUpdate) = ObOk ->
  snd (step fixed s1 (OKeygen UP)) = ObOk -> snd (step fixed s2 (OEncaps j EP)) = ObOk ->
  parse true UP = Ok up -> parse true EP = Ok ep ->
  (forall U, In U (to_dnf up) -> NoDup (map qdim U)) -> (forall E, In E (to_dnf ep) -> NoDup (map qdim E)) ->
  (forall U E, In U (to_dnf up) -> In E (to_dnf ep) -> ~ covers st U E) ->
  nth_error (st_usks s3) k = Some u /\ nth_error (st_encs s3) e = Some x /\
  decaps fixed u x = None /\
  snd (step fixed s3 (ODecaps k e)) = ObNone.
Proof.
  intros s1 st j s2 s3 k e u x Hr Hok HK HE Hup Hep HU HEn Hno.
  pose proof (plain_setting s0 UP EP du dx Hok HK HE) as [Nu Nx]. change (nth_error (st_usks s3) k = Some u) in Nu. change (nth_error (st_encs s3) e = Some x) in Nx.
  assert (Hd : decaps fixed u x = None).
  { apply (C02_sound s0 [] [] UP EP up ep du dx); try assumption; constructor. }
  split; [exact Nu|]. split; [exact Nx|]. split; [exact Hd|].
  cbn [step]. rewrite Nu, Nx. destruct (u_chains u) eqn:Ec; [exfalso|rewrite Hd; reflexivity].
  (* the key holds the rights of complementary_rights st up, which are never empty *)
  destruct (keygen_shape s1 UP HK) as (rs & chs & HrU & Hla & Hus & _).
  pose proof (keygen_last s1 UP du HK) as Eu. fold s2 in Eu, Hus. fold u in Eu. rewrite Hus in Eu.
  apply app_inj_tail in Eu. destruct Eu as [_ Eu]. rewrite <- Eu in Ec. cbn [u_chains] in Ec. subst chs.
  destruct (latest_all_spec _ _ _ Hla) as [Hfst _]. cbn in Hfst. subst rs.
  apply (usk_rights_parsed _ _ _ _ Hup) in HrU. exact (complementary_rights_ne _ _ _ HrU eq_refl).
Qed.
Print Assumptions C01_complete_plain.
Print Assumptions C02_sound_plain.

(* ================================================================ non-vacuity *)
Definition nS : str := [83].      (* "S" *)
Definition nD : str := [68].      (* "D" *)
Definition nl : str := [108].     (* "l" *)
Definition nh : str := [104].     (* "h" *)
Definition na : str := [97].      (* "a" *)
Definition nb : str := [98].      (* "b" *)
Definition pUP  : str := [83;58;58;104;32;38;38;32;68;58;58;97].   (* "S::h && D::a" *)
Definition pEP1 : str := [83;58;58;108;32;38;38;32;68;58;58;97].   (* "S::l && D::a" *)
Definition pEP2 : str := [68;58;58;98].                            (* "D::b" *)

(* hierarchy S : l < h ; anarchy D : {a, b (hybridized)} ; the master key is NOT yet updated in ex_s0 *)
Definition ex_hist : list op :=
  [OSetup; OAddHierarchy nS; OAddAttr nS nl false None; OAddAttr nS nh false (Some nl);
   OAddAnarchy nD; OAddAttr nD na false None; OAddAttr nD nb true None].
Definition ex_s0 : state := run_state fixed init ex_hist.
Definition ex_s1 : state := fst (step fixed ex_s0 OUpdate).
Definition ex_st : structure := m_st (st_msk ex_s1).
Definition qSh := {| qdim := nS; qname := nh |}.
Definition qSl := {| qdim := nS; qname := nl |}.
Definition qDa := {| qdim := nD; qname := na |}.
Definition qDb := {| qdim := nD; qname := nb |}.
Definition ex_du : usk := {| u_id := None; u_chains := [] |}.
Definition ex_dx : xenc := {| x_hyb := false; x_entries := []; x_seed := 0 |}.

Example ex_setup_ok : snd (run fixed init ex_hist) = [ObOk; ObOk; ObOk; ObOk; ObOk; ObOk; ObOk] /\
  dims ex_st = [(nS, Hierarchy [(nl, {| a_id := 0; a_hyb := false; a_enc := true |}); (nh, {| a_id := 1; a_hyb := false; a_enc := true |})]);
                (nD, Anarchy [(na, {| a_id := 2; a_hyb := false; a_enc := true |}); (nb, {| a_id := 3; a_hyb := true; a_enc := true |})])].
Proof. vm_compute. split; reflexivity. Qed.

Example ex_parses :
  parse true pUP = Ok (Conj (Term qSh) (Term qDa)) /\ parse true pEP1 = Ok (Conj (Term qSl) (Term qDa)) /\ parse true pEP2 = Ok (Term qDb).
Proof. vm_compute. repeat split; reflexivity. Qed.

Lemma ex_reach : reach ex_s0. Proof. exists ex_hist. reflexivity. Qed.

(* the user clause [S::h; D::a] covers the encryption clause [S::l; D::a] ... *)
Lemma ex_covers : covers ex_st [qSh; qDa] [qSl; qDa].
Proof.
  intros e [<-|[<-|[]]]; right.
  - exists qSh, (Hierarchy [(nl, {| a_id := 0; a_hyb := false; a_enc := true |}); (nh, {| a_id := 1; a_hyb := false; a_enc := true |})]).
    split; [left; reflexivity|]. split; [reflexivity|]. split; [vm_compute; reflexivity|]. vm_compute. left. reflexivity.
  - exists qDa, (Anarchy [(na, {| a_id := 2; a_hyb := false; a_enc := true |}); (nb, {| a_id := 3; a_hyb := true; a_enc := true |})]).
    split; [right; left; reflexivity|]. split; [reflexivity|]. split; [vm_compute; reflexivity|]. vm_compute. left. reflexivity.
Qed.
(* ... and does not cover [D::b] *)
Lemma ex_not_covers : ~ covers ex_st [qSh; qDa] [qDb].
Proof.
  intros Hc. destruct (Hc qDb (or_introl eq_refl)) as [Hn|(u & dm & Hu & Hq & Hdm & Hle)].
  - apply Hn. cbn. right. left. reflexivity.
  - destruct Hu as [<-|[<-|[]]]; [discriminate Hq|]. vm_compute in Hdm. inversion Hdm; subst dm. vm_compute in Hle.
    destruct Hle as [E|[]]. discriminate E.
Qed.

Ltac discharge_computed T :=
  match type of T with ?A -> _ => let H := fresh "Hc" in assert (H : A) by (vm_compute; reflexivity); specialize (T H) end.

Lemma ex_nodup_UP : forall U, In U (to_dnf (Conj (Term qSh) (Term qDa))) -> NoDup (map qdim U).
Proof. intros U [<-|[]]. vm_compute. repeat constructor; cbn; intuition discriminate. Qed.
Lemma ex_nodup_EP1 : forall E, In E (to_dnf (Conj (Term qSl) (Term qDa))) -> NoDup (map qdim E).
Proof. intros E [<-|[]]. vm_compute. repeat constructor; cbn; intuition discriminate. Qed.
Lemma ex_nodup_EP2 : forall E, In E (to_dnf (Term qDb)) -> NoDup (map qdim E).
Proof. intros E [<-|[]]. vm_compute. repeat constructor; cbn; intuition discriminate. Qed.

(* the instance of C01_complete_plain: every hypothesis holds (the computed ones by vm_compute), so its conclusion holds;
   the last two lines recompute the same behaviour directly *)
Example C01_nonvacuous :
  let s1 := fst (step fixed ex_s0 OUpdate) in
  let j := length (st_mpks ex_s0) in
  let s2 := fst (step fixed s1 (OKeygen pUP)) in
  let s3 := fst (step fixed s2 (OEncaps j pEP1)) in
  let k := length (st_usks ex_s0) in
  let e := length (st_encs ex_s0) in
  let u := last (st_usks s2) ex_du in
  let x := last (st_encs s3) ex_dx in
  (snd (step fixed ex_s0 OUpdate) = ObOk /\ snd (step fixed s1 (OKeygen pUP)) = ObOk /\ snd (step fixed s2 (OEncaps j pEP1)) = ObOk) /\
  (nth_error (st_usks s3) k = Some u /\ nth_error (st_encs s3) e = Some x /\
   decaps fixed u x = Some (x_seed x) /\ snd (step fixed s3 (ODecaps k e)) = ObSome (x_seed x)) /\
  (j = 1 /\ k = 0 /\ e = 0)%nat /\
  snd (run fixed ex_s0 [OUpdate; OKeygen pUP; OEncaps 1 pEP1; ODecaps 0 0]) = [ObOk; ObOk; ObOk; ObSome 10].
Proof.
  intros s1 j s2 s3 k e u x. subst s1 j s2 s3 k e u x.
  pose proof (C01_complete_plain ex_s0 pUP pEP1 (Conj (Term qSh) (Term qDa)) (Conj (Term qSl) (Term qDa)) ex_du ex_dx) as T.
  cbv zeta in T. specialize (T ex_reach).
  discharge_computed T. discharge_computed T. discharge_computed T. discharge_computed T. discharge_computed T.
  specialize (T ex_nodup_UP ex_nodup_EP1).
  split; [repeat split; assumption|]. split.
  - apply T. exists [qSh; qDa], [qSl; qDa]. split; [left; reflexivity|]. split; [left; reflexivity|exact ex_covers].
  - split; vm_compute; repeat split; reflexivity.
Qed.

Example C02_nonvacuous :
  let s1 := fst (step fixed ex_s0 OUpdate) in
  let j := length (st_mpks ex_s0) in
  let s2 := fst (step fixed s1 (OKeygen pUP)) in
  let s3 := fst (step fixed s2 (OEncaps j pEP2)) in
  let k := length (st_usks ex_s0) in
  let e := length (st_encs ex_s0) in
  let u := last (st_usks s2) ex_du in
  let x := last (st_encs s3) ex_dx in
  (snd (step fixed ex_s0 OUpdate) = ObOk /\ snd (step fixed s1 (OKeygen pUP)) = ObOk /\ snd (step fixed s2 (OEncaps j pEP2)) = ObOk) /\
  (nth_error (st_usks s3) k = Some u /\ nth_error (st_encs s3) e = Some x /\
   decaps fixed u x = None /\ snd (step fixed s3 (ODecaps k e)) = ObNone) /\
  snd (run fixed ex_s0 [OUpdate; OKeygen pUP; OEncaps 1 pEP2; ODecaps 0 0]) = [ObOk; ObOk; ObOk; ObNone].
Proof.
  intros s1 j s2 s3 k e u x. subst s1 j s2 s3 k e u x.
  pose proof (C02_sound_plain ex_s0 pUP pEP2 (Conj (Term qSh) (Term qDa)) (Term qDb) ex_du ex_dx) as T.
  cbv zeta in T. specialize (T ex_reach).
  discharge_computed T. discharge_computed T. discharge_computed T. discharge_computed T. discharge_computed T.
  specialize (T ex_nodup_UP ex_nodup_EP2).
  split; [repeat split; assumption|]. split.
  - apply T. intros U E [<-|[]] [<-|[]]. exact ex_not_covers.
  - vm_compute. reflexivity.
Qed.

(* the other order, with operations in between (a second key, a fresh snapshot, a decapsulation attempt, a refresh) *)
Example enc_first_nonvacuous :
  let s1 := fst (step fixed ex_s0 OUpdate) in
  let j := length (st_mpks ex_s0) in
  let ops1 := [OKeygen pEP2; OMpk] in
  let ops2 := [ODecaps 0 0; ORefresh 0 true] in
  let sa := run_state fixed s1 ops1 in
  let s2 := fst (step fixed sa (OEncaps j pEP1)) in
  let sb := run_state fixed s2 ops2 in
  let s3 := fst (step fixed sb (OKeygen pUP)) in
  let x := last (st_encs s2) ex_dx in
  let u := last (st_usks s3) ex_du in
  (quiet_ops ops1 /\ quiet_ops ops2 /\
   snd (step fixed sa (OEncaps j pEP1)) = ObOk /\ snd (step fixed sb (OKeygen pUP)) = ObOk) /\
  decaps fixed u x = Some (x_seed x).
Proof.
  intros s1 j ops1 ops2 sa s2 sb s3 x u. subst s1 j sa s2 sb s3 x u.
  assert (Q1 : quiet_ops ops1) by (repeat constructor).
  assert (Q2 : quiet_ops ops2) by (repeat constructor).
  pose proof (C01_complete_enc_first ex_s0 ops1 ops2 pUP pEP1 (Conj (Term qSh) (Term qDa)) (Conj (Term qSl) (Term qDa)) ex_du ex_dx) as T.
  cbv zeta in T. specialize (T ex_reach).
  discharge_computed T. specialize (T Q1). discharge_computed T. specialize (T Q2). discharge_computed T.
  discharge_computed T. discharge_computed T.
  specialize (T ex_nodup_UP ex_nodup_EP1).
  split; [repeat split; assumption|].
  apply T. exists [qSh; qDa], [qSl; qDa]. split; [left; reflexivity|]. split; [left; reflexivity|exact ex_covers].
Qed.
