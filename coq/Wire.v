(* Prototype (scratch): byte-level readers of the serialized objects (default sizes), executable only *)
From Coq Require Import List NArith Bool Arith Lia.
Require Import Policy Structure Leb.
Import ListNotations.

Definition bytes := list N.
Inductive res (A : Type) := ROk (a : A) (rest : bytes) | RErr.
Arguments ROk {A}. Arguments RErr {A}.
Definition bind {A B} (r : res A) (f : A -> bytes -> res B) : res B := match r with ROk a rest => f a rest | RErr => RErr end.
Notation "'do' ( x , r ) <- e ; k" := (bind e (fun x r => k)) (at level 200, x name, r name, e at level 100, k at level 200).

Record sizes := { scalar_len : nat; point_len : nat; ek_len : nat; dk_len : nat; ct_len : nat }.
Definition default_sizes := {| scalar_len := 32; point_len := 32; ek_len := 800; dk_len := 1632; ct_len := 768 |}.

Definition r_leb (bs : bytes) : res N := match leb_read bs with Some (n, rest) => ROk n rest | None => RErr end.
Fixpoint r_take (n : nat) (bs : bytes) : res bytes :=
  match n with
  | O => ROk [] bs
  | S n' => match bs with [] => RErr | b :: t => do (r, rest) <- r_take n' t; ROk (b :: r) rest end
  end.
(* read_vec with the repair of F9: the announced length is compared with what remains before anything is allocated *)
Definition r_vec (bs : bytes) : res bytes :=
  do (len, rest) <- r_leb bs;
  if (N.of_nat (length rest) <? len)%N then RErr else r_take (N.to_nat len) rest.
(* a count followed by that many elements; the loop is bounded by the remaining input (each element consumes >= 1 byte) *)
Fixpoint r_n {A} (f : bytes -> res A) (fuel : nat) (n : N) (bs : bytes) (acc : list A) : res (list A) :=
  if (n =? 0)%N then ROk (rev acc) bs else
  match fuel with
  | O => RErr
  | S fu => do (a, rest) <- f bs; r_n f fu (n - 1)%N rest (a :: acc)
  end.
Definition r_list {A} (f : bytes -> res A) (bs : bytes) : res (list A) :=
  do (n, rest) <- r_leb bs; r_n f (length rest) n rest [].
Definition r_flag (bs : bytes) : res bool :=
  do (n, rest) <- r_leb bs; if (n =? 0)%N then ROk false rest else if (n =? 1)%N then ROk true rest else RErr.

Section Sized.
  Variable sz : sizes.
  Record w_attr := { wa_id : N; wa_hyb : bool; wa_enc : bool }.
  Definition r_attr (bs : bytes) : res w_attr :=
    do (id, r1) <- r_leb bs; do (h, r2) <- r_flag r1; do (s, r3) <- r_flag r2; ROk {| wa_id := id; wa_hyb := h; wa_enc := s |} r3.
  Definition r_named_attr (bs : bytes) : res (bytes * w_attr) :=
    do (name, r1) <- r_vec bs; do (a, r2) <- r_attr r1; ROk (name, a) r2.
  Definition r_dim (bs : bytes) : res (bool * list (bytes * w_attr)) :=
    do (ord, r1) <- r_flag bs; do (l, r2) <- r_list r_named_attr r1; ROk (ord, l) r2.
  Record w_structure := { ws_version : N; ws_dims : list (bytes * (bool * list (bytes * w_attr))); ws_next : option N }.
  Definition r_structure (bs : bytes) : res w_structure :=
    do (v, r1) <- r_leb bs;
    if (1 <? v)%N then RErr else
    do (ds, r2) <- r_list (fun b => do (name, q1) <- r_vec b; do (d, q2) <- r_dim q1; ROk (name, d) q2) r1;
    if (v =? 1)%N then do (nx, r3) <- r_leb r2; ROk {| ws_version := v; ws_dims := ds; ws_next := Some nx |} r3
    else ROk {| ws_version := v; ws_dims := ds; ws_next := None |} r2.

  Record w_rsk := { wk_hyb : bool; wk_sk : bytes; wk_dk : bytes }.
  Definition r_rsk (bs : bytes) : res w_rsk :=
    do (h, r1) <- r_flag bs; do (sk, r2) <- r_take (scalar_len sz) r1;
    if h then do (dk, r3) <- r_take (dk_len sz) r2; ROk {| wk_hyb := true; wk_sk := sk; wk_dk := dk |} r3
    else ROk {| wk_hyb := false; wk_sk := sk; wk_dk := [] |} r2.
  Record w_rpk := { wp_hyb : bool; wp_h : bytes; wp_ek : bytes }.
  Definition r_rpk (bs : bytes) : res w_rpk :=
    do (h, r1) <- r_flag bs; do (p, r2) <- r_take (point_len sz) r1;
    if h then do (ek, r3) <- r_take (ek_len sz) r2; ROk {| wp_hyb := true; wp_h := p; wp_ek := ek |} r3
    else ROk {| wp_hyb := false; wp_h := p; wp_ek := [] |} r2.

  Definition r_userid := r_list (r_take (scalar_len sz)).
  Record w_msk := { wm_s : bytes; wm_tracers : list (bytes * bytes); wm_users : list (list bytes);
                    wm_secrets : list (bytes * list (bool * w_rsk)); wm_sign : option bytes; wm_st : w_structure }.
  Definition r_msk (bs : bytes) : res w_msk :=
    do (s, r1) <- r_take (scalar_len sz) bs;
    do (tr, r2) <- r_list (fun b => do (sk, q1) <- r_take (scalar_len sz) b; do (pk, q2) <- r_take (point_len sz) q1; ROk (sk, pk) q2) r1;
    do (us, r3) <- r_list r_userid r2;
    do (secs, r4) <- r_list (fun b => do (r, q1) <- r_vec b;
                                       do (ch, q2) <- r_list (fun c => do (fl, p1) <- r_leb c; do (k, p2) <- r_rsk p1; ROk ((fl =? 1)%N, k) p2) q1;
                                       ROk (r, ch) q2) r3;
    if (length r4 <? 16)%nat then do (st, r5) <- r_structure r4; ROk {| wm_s := s; wm_tracers := tr; wm_users := us; wm_secrets := secs; wm_sign := None; wm_st := st |} r5
    else do (k, r5) <- r_take 16 r4; do (st, r6) <- r_structure r5; ROk {| wm_s := s; wm_tracers := tr; wm_users := us; wm_secrets := secs; wm_sign := Some k; wm_st := st |} r6.

  Record w_mpk := { wq_tpk : list bytes; wq_keys : list (bytes * w_rpk); wq_st : w_structure }.
  Definition r_mpk (bs : bytes) : res w_mpk :=
    do (tpk, r1) <- r_list (r_take (point_len sz)) bs;
    do (ks, r2) <- r_list (fun b => do (r, q1) <- r_vec b; do (k, q2) <- r_rpk q1; ROk (r, k) q2) r1;
    do (st, r3) <- r_structure r2; ROk {| wq_tpk := tpk; wq_keys := ks; wq_st := st |} r3.

  Record w_usk := { wu_id : list bytes; wu_ps : list bytes; wu_chains : list (bytes * list w_rsk); wu_sig : option bytes }.
  Definition r_usk (bs : bytes) : res w_usk :=
    do (id, r1) <- r_userid bs;
    do (ps, r2) <- r_list (r_take (point_len sz)) r1;
    do (chs, r3) <- r_list (fun b => do (r, q1) <- r_vec b; do (ch, q2) <- r_list r_rsk q1; ROk (r, ch) q2) r2;
    let chs' := filter (fun rc => negb (match snd rc with [] => true | _ => false end)) chs in    (* insert_new_chain drops empty chains *)
    if (length r3 <? 32)%nat then ROk {| wu_id := id; wu_ps := ps; wu_chains := chs'; wu_sig := None |} r3
    else do (sg, r4) <- r_take 32 r3; ROk {| wu_id := id; wu_ps := ps; wu_chains := chs'; wu_sig := Some sg |} r4.

  Record w_xenc := { wx_tag : bytes; wx_c : list bytes; wx_hyb : bool; wx_entries : list (bytes * bytes) }.
  Definition r_xenc (bs : bytes) : res w_xenc :=
    do (tag, r1) <- r_take 16 bs;
    do (c, r2) <- r_list (r_take (point_len sz)) r1;
    do (h, r3) <- r_flag r2;
    if h then do (es, r4) <- r_list (fun b => do (e, q1) <- r_take (ct_len sz) b; do (f, q2) <- r_take 32 q1; ROk (e, f) q2) r3;
              ROk {| wx_tag := tag; wx_c := c; wx_hyb := true; wx_entries := es |} r4
    else do (fs, r4) <- r_list (r_take 32) r3; ROk {| wx_tag := tag; wx_c := c; wx_hyb := false; wx_entries := map (fun f => ([], f)) fs |} r4.
End Sized.

(* Serializable::deserialize: non-empty input, nothing left over *)
Definition whole {A} (r : res A) : option A := match r with ROk a [] => Some a | _ => None end.
