(* DemExamples.v -- the theorems of DemProofs.v applied to the toy instance of Dem.v. *)
From Coq Require Import List NArith Bool PeanoNat.
From CC Require Import Dem DemProofs.
Import ListNotations.

(* ==================================================================== examples on the toy instance *)
(* Each example is obtained by APPLYING the theorem to the inhabitant (so its hypotheses are jointly
 satisfiable), and the [_run] twin re-checks the same fact by evaluating the executable model. *)
Definition n12 : bytes := [1;2;3;4;5;6;7;8;9;10;11;12]%N.
Definition usk := 7%N.  Definition enc := 7%N.  Definition seed := 1007%N.  Definition bad_usk := 8%N.
Definition pkeD := pke_decrypt N toy_kdf (toy_dec hon_all) N N toy_decaps.
Definition pkeE := pke_encrypt N toy_kdf toy_enc N.
Definition hdrD := header_decrypt N toy_kdf (toy_dec hon_all) N N toy_decaps.
Definition hdrG := header_generate N toy_kdf toy_enc N.

(* 1. empty and non-empty plaintexts *)
Example ex_pke_roundtrip_empty : pkeD usk (pkeE seed enc n12 []) = DOk (Some []).
Proof. exact (pke_roundtrip_real _ _ _ _ _ _ toy_decaps dem_inhabited usk seed enc n12 [] eq_refl eq_refl). Qed.
Example ex_pke_roundtrip_empty_run : pkeD usk (pkeE seed enc n12 []) = DOk (Some []).
Proof. vm_compute. reflexivity. Qed.
Example ex_pke_roundtrip_run : pkeD usk (pkeE seed enc n12 [0;255;17]%N) = DOk (Some [0;255;17]%N).
Proof. vm_compute. reflexivity. Qed.
Example ex_pke_ciphertext_length : length (snd (pkeE seed enc n12 [])) = 28.
Proof. vm_compute. reflexivity. Qed.

(* 2. *)
Example ex_pke_unauthorized : pkeD bad_usk (pkeE seed enc n12 [5]%N) = DOk None.
Proof. exact (pke_unauthorized N toy_kdf (toy_dec hon_all) N N toy_decaps true bad_usk enc _ eq_refl). Qed.

(* 3. metadata None / Some [] / Some m ; ad None vs Some [] *)
Example ex_header_roundtrip_empty_md :
  hdrD usk (snd (hdrG seed enc n12 (Some []) None)) (Some [])
  = DOk (Some {| c_secret := fst (hdrG seed enc n12 (Some []) None); c_metadata := Some [] |}).
Proof.
  exact (header_roundtrip_real _ _ _ _ _ _ toy_decaps dem_inhabited usk seed enc n12 (Some []) None (Some [])
           eq_refl eq_refl eq_refl).
Qed.
Example ex_header_roundtrip_empty_md_run :
  hdrD usk (snd (hdrG seed enc n12 (Some []) None)) (Some [])
  = DOk (Some {| c_secret := toy_kdf seed [1%N]; c_metadata := Some [] |}).
Proof. vm_compute. reflexivity. Qed.
Example ex_header_roundtrip_none_run :
  hdrD usk (snd (hdrG seed enc n12 None (Some [4;4]%N))) None
  = DOk (Some {| c_secret := toy_kdf seed [1%N]; c_metadata := None |}).
Proof. vm_compute. reflexivity. Qed.
Example ex_header_roundtrip_md_ad_run :
  hdrD usk (snd (hdrG seed enc n12 (Some [109;100]%N) (Some [97;100]%N))) (Some [97;100]%N)
  = DOk (Some {| c_secret := toy_kdf seed [1%N]; c_metadata := Some [109;100]%N |}).
Proof. vm_compute. reflexivity. Qed.
Example ex_header_unauthorized_run : hdrD bad_usk (snd (hdrG seed enc n12 (Some [1]%N) None)) None = DOk None.
Proof. vm_compute. reflexivity. Qed.

(* ideal world with the single honest metadata encryption (kmd, n12, [97;100], [109;100]) *)
Definition kmd := toy_kdf seed label_md.
Definition adv : bytes := [97;100]%N.  Definition mdv : bytes := [109;100]%N.
Definition honM := hon_one kmd n12 adv mdv.
Definition hdrDi := header_decrypt N toy_kdf (toy_dec honM) N N toy_decaps.

(* 4. *)
Example ex_header_aad_mismatch : hdrDi usk (snd (hdrG seed enc n12 (Some mdv) (Some adv))) None = DErr.
Proof.
  refine (header_aad_mismatch N toy_kdf toy_enc _ N N toy_decaps _ (dem_inhabited_ideal kmd n12 adv mdv)
            usk seed enc n12 mdv (Some adv) None eq_refl (only_honest_one _ _ _ _) _).
  discriminate.
Qed.
Example ex_header_aad_mismatch_run :
  hdrDi usk (snd (hdrG seed enc n12 (Some mdv) (Some adv))) (Some [97;101]%N) = DErr
  /\ hdrDi usk (snd (hdrG seed enc n12 (Some mdv) (Some adv))) None = DErr
  /\ hdrDi usk (snd (hdrG seed enc n12 (Some mdv) (Some adv))) (Some adv)
     = DOk (Some {| c_secret := toy_kdf seed [1%N]; c_metadata := Some mdv |}).
Proof. vm_compute. repeat split. Qed.
(* the same mismatch is rejected in the real reading of the toy instance too *)
Example ex_header_aad_mismatch_real_run :
  hdrD usk (snd (hdrG seed enc n12 (Some mdv) (Some adv))) None = DErr.
Proof. vm_compute. reflexivity. Qed.
(* metadata deleted: accepted (finding) *)
Example ex_header_strip_run :
  hdrDi usk {| h_enc := enc; h_emd := None |} None
  = DOk (Some {| c_secret := fst (hdrG seed enc n12 (Some mdv) (Some adv)); c_metadata := None |}).
Proof. vm_compute. reflexivity. Qed.

(* ideal world with the single honest PKE encryption (kae, n12, [], [10;20;30]) *)
Definition kae := toy_kdf seed label_ae.
Definition ptv : bytes := [10;20;30]%N.
Definition honP := hon_one kae n12 [] ptv.
Definition aeDi := ae_decrypt N (toy_dec honP).
Definition cth : bytes := ae_encrypt N toy_enc n12 kae ptv.

Example ex_ae_roundtrip_ideal_run : aeDi kae cth = DOk ptv.
Proof. vm_compute. reflexivity. Qed.
(* 5. truncation: drop the last byte; keep only 5 bytes; keep nothing *)
Example ex_ae_truncation : aeDi kae (removelast cth) = DErr.
Proof.
  refine (ae_truncation N toy_kdf toy_enc _ _ (dem_inhabited_ideal kae n12 [] ptv) kae n12 ptv
            (removelast cth) [last cth 0%N] (only_honest_one _ _ _ _) _ _).
  - discriminate.
  - vm_compute. reflexivity.
Qed.
Example ex_ae_truncation_run :
  aeDi kae (removelast cth) = DErr /\ aeDi kae (firstn 5 cth) = DErr /\ aeDi kae [] = DErr
  /\ aeDi kae (firstn 12 cth) = DErr /\ aeDi kae (firstn 27 cth) = DErr.
Proof. vm_compute. repeat split. Qed.
(* 6. one byte of the nonce / of the body / of the tag changed, one byte appended *)
Definition flip (i : nat) (c : bytes) : bytes := firstn i c ++ (nth i c 0 + 1)%N :: skipn (S i) c.
Example ex_ae_altered : aeDi kae (flip 13 cth) = DErr.
Proof.
  refine (ae_altered N toy_kdf toy_enc _ _ (dem_inhabited_ideal kae n12 [] ptv) kae n12 ptv (flip 13 cth)
            (only_honest_one _ _ _ _) _).
  vm_compute. discriminate.
Qed.
Example ex_ae_altered_run :
  aeDi kae (flip 0 cth) = DErr /\ aeDi kae (flip 13 cth) = DErr /\ aeDi kae (flip 15 cth) = DErr
  /\ aeDi kae (flip 30 cth) = DErr /\ aeDi kae (cth ++ [0%N]) = DErr.
Proof. vm_compute. repeat split. Qed.

(* the length guard: with it a 5-byte input is an error, without it the slice panics *)
Definition five : bytes := [1;2;3;4;5]%N.
Example ex_guard_on : ae_decrypt_g N (toy_dec hon_all) true kae five = DErr.
Proof. vm_compute. reflexivity. Qed.
Example ex_guard_off_panics : ae_decrypt_g N (toy_dec hon_all) false kae five = DPanic.
Proof. exact (ae_unguarded_panics N (toy_dec hon_all) kae five (proj1 (Nat.leb_le 6 12) eq_refl)). Qed.
Example ex_guard_off_panics_run :
  ae_decrypt_g N (toy_dec hon_all) false kae five = DPanic
  /\ header_decrypt_g N toy_kdf (toy_dec hon_all) N N toy_decaps false usk {| h_enc := enc; h_emd := Some five |} None
     = DPanic
  /\ hdrD usk {| h_enc := enc; h_emd := Some five |} None = DErr.
Proof. vm_compute. repeat split. Qed.

(* 7. *)
Example ex_metadata_key_ne_secret : toy_kdf seed label_md <> toy_kdf seed label_secret.
Proof. exact (metadata_key_ne_secret N toy_kdf toy_enc (toy_dec hon_all) all_honest dem_inhabited seed seed). Qed.

(* 8. a run mixing PKE encryptions and headers with and without metadata *)
Definition calls : list (call N N) :=
  [CPke N N 1001%N 1%N [1]%N; CHdr N N 1002%N 2%N None (Some [3]%N); CHdr N N 1003%N 3%N (Some []) None;
   CPke N N 1004%N 4%N []; CHdr N N 1005%N 5%N (Some [8]%N) (Some [9]%N)].
Example ex_run_nonces_nodup : NoDup (flat_map (@out_nonces N N) (run N toy_kdf toy_enc N toy_fresh 0 calls)).
Proof. exact (run_nonces_nodup N toy_kdf toy_enc N toy_fresh fresh_inhabited calls 0). Qed.
Example ex_run_nonces_run :
  flat_map (@out_nonces N N) (run N toy_kdf toy_enc N toy_fresh 0 calls)
  = [toy_fresh 0; toy_fresh 1; toy_fresh 2; toy_fresh 3].
Proof. vm_compute. reflexivity. Qed.
