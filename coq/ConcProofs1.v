(* C19, part 1: executions of the thread/mutex model of Conc.v, liveness without fairness,
   executable step function / schedule runner / observation trace, negative example.

   Model (Conc.v): threads share ONE non-reentrant mutex guarding an RNG cursor
   (`Covercrypt { rng: Mutex<CsRng> }` in src/api.rs).  A program is a list of events
   Acq | Rel | Draw n | Unknown; `cstep c i c'` is one step of thread i.

   Main results of this file
     exec_inv, exec_length                       (executions preserve Inv / consume one event per step)
     no_call_blocks_forever                      (progress + bounded length + maximal executions finish)
     lock_free_all_enabled, holder_enabled,
     blocked_only_while_other_holds,
     holder_releases                             (per-thread liveness)
     step_fn / run / trace  + exec_run           (executable semantics, equivalent to cstep / exec)
     self_deadlock                               (well_bracketed is not vacuous: nested lock = deadlock)
     two_threads_complete                        (hypotheses satisfiable: a complete run of two threads) *)
From Coq Require Import List NArith Bool Arith Lia.
From CC Require Import Conc.
Import ListNotations.
Local Arguments N.add : simpl never.

(* ------------------------------------------------------------------------------------------ *)
(** * 1. Executions *)

Definition init (k0 : N) (ps : list program) : conf := {| owner := None; cursor := k0; threads := ps |}.

(* reflexive-transitive closure of cstep, recording the schedule (indices of the threads that stepped) *)
Inductive exec : conf -> list nat -> conf -> Prop :=
| exec_nil c : exec c [] c
| exec_step c i c1 sch c' : cstep c i c1 -> exec c1 sch c' -> exec c (i :: sch) c'.

Lemma exec_app c s1 c1 s2 c2 : exec c s1 c1 -> exec c1 s2 c2 -> exec c (s1 ++ s2) c2.
Proof.
  intros H1 H2. induction H1 as [c|c i ca s1 c1 Hs H1 IH]; [exact H2|].
  cbn. eapply exec_step; [exact Hs|]. apply IH. exact H2.
Qed.

Lemma exec_snoc c s c1 i c2 : exec c s c1 -> cstep c1 i c2 -> exec c (s ++ [i]) c2.
Proof. intros H1 Hs. eapply exec_app; [exact H1|]. eapply exec_step; [exact Hs|apply exec_nil]. Qed.

Lemma exec_app_inv c s1 s2 c2 : exec c (s1 ++ s2) c2 -> exists c1, exec c s1 c1 /\ exec c1 s2 c2.
Proof.
  revert c. induction s1 as [|i s1 IH]; intros c H.
  - exists c. split; [apply exec_nil|exact H].
  - cbn in H. inversion H as [|c0 i0 ca sch c' Hs He]; subst.
    destruct (IH _ He) as (c1 & Ha & Hb). exists c1. split; [|exact Hb].
    eapply exec_step; eassumption.
Qed.

Theorem exec_inv c sch c' : Inv c -> exec c sch c' -> Inv c'.
Proof.
  intros HI He. induction He as [c|c i c1 sch c' Hs He IH]; [exact HI|].
  apply IH. eapply inv_step; eassumption.
Qed.

Theorem exec_length c sch c' : exec c sch c' -> length sch + remaining c' = remaining c.
Proof.
  intros He. induction He as [c|c i c1 sch c' Hs He IH]; cbn [length]; [lia|].
  apply step_decreases in Hs. lia.
Qed.

Lemma cstep_det c i c1 c2 : cstep c i c1 -> cstep c i c2 -> c1 = c2.
Proof.
  intros H1 H2.
  inversion H1 as [ca ia ta Hna Hoa|ca ia ta Hna Hoa|ca ia na ta Hna Hoa]; subst;
  inversion H2 as [cb ib tb Hnb Hob|cb ib tb Hnb Hob|cb ib nb tb Hnb Hob]; subst;
  rewrite Hna in Hnb; try discriminate; injection Hnb; intros; subst; reflexivity.
Qed.

Lemma exec_det c sch c1 c2 : exec c sch c1 -> exec c sch c2 -> c1 = c2.
Proof.
  intros H1. revert c2. induction H1 as [c|c i ca sch c1 Hs H1 IH]; intros c2 H2.
  - inversion H2; subst. reflexivity.
  - inversion H2 as [|c0 i0 cb sch0 c' Hs' He']; subst.
    rewrite (cstep_det _ _ _ _ Hs' Hs) in He'. apply IH. exact He'.
Qed.

(* ------------------------------------------------------------------------------------------ *)
(** * Executable semantics: step function, schedule runner, observation trace *)

Definition step_fn (c : conf) (i : nat) : option conf :=
  match nth_error (threads c) i, owner c with
  | Some (Acq :: t), None =>
      Some {| owner := Some i; cursor := cursor c; threads := set_nth i t (threads c) |}
  | Some (Rel :: t), Some j =>
      if Nat.eqb j i then Some {| owner := None; cursor := cursor c; threads := set_nth i t (threads c) |}
      else None
  | Some (Draw n :: t), Some j =>
      if Nat.eqb j i then Some {| owner := Some i; cursor := (cursor c + n)%N; threads := set_nth i t (threads c) |}
      else None
  | _, _ => None
  end.

Lemma step_fn_sound c i c' : step_fn c i = Some c' -> cstep c i c'.
Proof.
  unfold step_fn. destruct (nth_error (threads c) i) as [[|[| |n|] t]|] eqn:En;
    destruct (owner c) as [j|] eqn:Eo; try discriminate.
  - intros H. injection H as <-. eapply s_acq; eassumption.
  - destruct (Nat.eqb j i) eqn:Ej; [|discriminate]. apply Nat.eqb_eq in Ej. subst j.
    intros H. injection H as <-. eapply s_rel; eassumption.
  - destruct (Nat.eqb j i) eqn:Ej; [|discriminate]. apply Nat.eqb_eq in Ej. subst j.
    intros H. injection H as <-. eapply s_draw; eassumption.
Qed.

Lemma step_fn_complete c i c' : cstep c i c' -> step_fn c i = Some c'.
Proof.
  intros Hs. inversion Hs as [c0 i0 t Hn Ho|c0 i0 t Hn Ho|c0 i0 n t Hn Ho]; subst;
    unfold step_fn; rewrite Hn, Ho, ?Nat.eqb_refl; reflexivity.
Qed.

Lemma step_fn_iff c i c' : cstep c i c' <-> step_fn c i = Some c'.
Proof. split; [apply step_fn_complete|apply step_fn_sound]. Qed.

Fixpoint run (c : conf) (sch : list nat) : option conf :=
  match sch with
  | [] => Some c
  | i :: s => match step_fn c i with Some c1 => run c1 s | None => None end
  end.

Lemma exec_run c sch c' : exec c sch c' <-> run c sch = Some c'.
Proof.
  split.
  - intros He. induction He as [c|c i c1 sch c' Hs He IH]; [reflexivity|].
    cbn [run]. rewrite (step_fn_complete _ _ _ Hs). exact IH.
  - revert c. induction sch as [|i s IH]; intros c H; cbn [run] in H.
    + injection H as <-. apply exec_nil.
    + destruct (step_fn c i) as [c1|] eqn:Es; [|discriminate].
      eapply exec_step; [apply step_fn_sound; exact Es|apply IH; exact H].
Qed.

(* what a step shows to an observer: which operation, and the RNG cursor at that moment *)
Inductive label := LAcq (k : N) | LRel (k : N) | LDraw (k n : N).

Definition ev_of (l : label) : ev :=
  match l with LAcq _ => Acq | LRel _ => Rel | LDraw _ n => Draw n end.

Definition label_of (c : conf) (i : nat) : label :=
  match nth_error (threads c) i with
  | Some (Draw n :: _) => LDraw (cursor c) n
  | Some (Rel :: _) => LRel (cursor c)
  | _ => LAcq (cursor c)
  end.

(* the observation trace of running schedule sch from c (stops at the first disabled step) *)
Fixpoint trace (c : conf) (sch : list nat) : list (nat * label) :=
  match sch with
  | [] => []
  | i :: s => match step_fn c i with
              | Some c1 => (i, label_of c i) :: trace c1 s
              | None => []
              end
  end.

Lemma trace_cons c i c1 s : cstep c i c1 -> trace c (i :: s) = (i, label_of c i) :: trace c1 s.
Proof. intros Hs. cbn [trace]. rewrite (step_fn_complete _ _ _ Hs). reflexivity. Qed.

Lemma trace_schedule c sch c' : exec c sch c' -> map fst (trace c sch) = sch.
Proof.
  intros He. induction He as [c|c i c1 sch c' Hs He IH]; [reflexivity|].
  rewrite (trace_cons _ _ _ _ Hs). cbn. rewrite IH. reflexivity.
Qed.

(* packaged inversion of a step *)
Lemma cstep_thread c j c1 : cstep c j c1 ->
  exists e t, nth_error (threads c) j = Some (e :: t) /\ threads c1 = set_nth j t (threads c)
              /\ ev_of (label_of c j) = e /\ j < length (threads c).
Proof.
  intros Hs.
  assert (Hlt : forall p, nth_error (threads c) j = Some p -> j < length (threads c)).
  { intros p Hp. apply nth_error_Some. congruence. }
  inversion Hs as [c0 i0 t Hn Ho|c0 i0 t Hn Ho|c0 i0 n t Hn Ho]; subst; cbn [threads];
    eexists; exists t; (split; [exact Hn|]); (split; [reflexivity|]);
    unfold label_of; rewrite Hn; (split; [reflexivity|eapply Hlt; exact Hn]).
Qed.

(* while the lock is held, only its holder can step (Acq needs a free lock, Rel/Draw need ownership) *)
Lemma only_holder_steps c i j c' : owner c = Some i -> cstep c j c' -> j = i.
Proof.
  intros Ho Hs. inversion Hs as [c0 i0 t Hn Ho'|c0 i0 t Hn Ho'|c0 i0 n t Hn Ho']; subst; congruence.
Qed.

(* ------------------------------------------------------------------------------------------ *)
(** * 2. No call blocks forever *)

Definition all_wb (ps : list program) : Prop := Forall (fun p => well_bracketed p = true) ps.
Definition reachable (k0 : N) (ps : list program) (c : conf) : Prop := exists sch, exec (init k0 ps) sch c.
Definition enabled (c : conf) (i : nat) : Prop := exists c', cstep c i c'.
Definition stuck (c : conf) : Prop := forall i c', ~ cstep c i c'.

Lemma inv_init_k k0 ps : all_wb ps -> Inv (init k0 ps).
Proof.
  intros H. split; [|discriminate]. intros i p Hp. unfold holds. cbn.
  apply nth_error_In in Hp. cbn in Hp. eapply Forall_forall in H; [|exact Hp]. exact H.
Qed.

Lemma reachable_inv k0 ps c : all_wb ps -> reachable k0 ps c -> Inv c.
Proof. intros Hwb (sch & He). eapply exec_inv; [apply inv_init_k; exact Hwb|exact He]. Qed.

Lemma remaining_init k0 ps : remaining (init k0 ps) = length (concat ps).
Proof.
  unfold remaining. cbn [threads init]. induction ps as [|p ps IH]; [reflexivity|].
  cbn [fold_right concat]. rewrite app_length, IH. reflexivity.
Qed.

Lemma exec_bounded c sch c' : exec c sch c' -> length sch <= remaining c.
Proof. intros He. apply exec_length in He. lia. Qed.

(* (a) progress, (b) every execution is bounded by the total program length,
   (c) every maximal execution ends with all threads finished *)
Theorem no_call_blocks_forever k0 ps : all_wb ps ->
  (forall c, reachable k0 ps c -> finished c \/ exists i, enabled c i) /\
  (forall sch c, exec (init k0 ps) sch c -> length sch <= length (concat ps)) /\
  (forall sch c, exec (init k0 ps) sch c -> stuck c -> finished c).
Proof.
  intros Hwb. split; [|split].
  - intros c Hr. destruct (no_deadlock c (reachable_inv _ _ _ Hwb Hr)) as [Hf|(i & c' & Hs)];
      [left; exact Hf|right; exists i, c'; exact Hs].
  - intros sch c He. rewrite <- (remaining_init k0). eapply exec_bounded. exact He.
  - intros sch c He Hst.
    destruct (no_deadlock c (reachable_inv _ _ _ Hwb (ex_intro _ sch He))) as [Hf|(i & c' & Hs)];
      [exact Hf|exfalso; exact (Hst i c' Hs)].
Qed.
Print Assumptions no_call_blocks_forever.

(* the number of steps still to come is determined: a complete execution has exactly total-length steps *)
Lemma finished_remaining c : finished c -> remaining c = 0.
Proof.
  unfold finished, remaining. intros H. induction H as [|p l Hp H IH]; [reflexivity|].
  subst p. cbn. exact IH.
Qed.

Theorem complete_exec_length k0 ps sch c :
  exec (init k0 ps) sch c -> finished c -> length sch = length (concat ps).
Proof.
  intros He Hf. apply exec_length in He. rewrite (finished_remaining _ Hf), remaining_init in He. lia.
Qed.

(* lock free: every unfinished thread is about to acquire, and can *)
Theorem lock_free_all_enabled c i p : Inv c -> owner c = None ->
  nth_error (threads c) i = Some p -> p <> [] -> (exists t, p = Acq :: t) /\ enabled c i.
Proof.
  intros (Hwb & _) Ho Hp Hne. specialize (Hwb i p Hp). unfold holds in Hwb. rewrite Ho in Hwb.
  destruct p as [|[| |n|] t]; cbn in Hwb; try discriminate; [contradiction|].
  split; [exists t; reflexivity|]. eexists. eapply s_acq; eassumption.
Qed.
Print Assumptions lock_free_all_enabled.

(* lock held by j: thread j can step (a Draw or the Rel) *)
Theorem holder_enabled c j : Inv c -> owner c = Some j -> enabled c j.
Proof.
  intros (Hwb & Hown) Ho. specialize (Hown j Ho).
  destruct (nth_error (threads c) j) as [p|] eqn:Ep; [|apply nth_error_None in Ep; lia].
  specialize (Hwb j p Ep). unfold holds in Hwb. rewrite Ho, Nat.eqb_refl in Hwb.
  destruct p as [|[| |n|] t]; cbn in Hwb; try discriminate.
  - eexists. eapply s_rel; eassumption.
  - eexists. eapply s_draw; eassumption.
Qed.
Print Assumptions holder_enabled.

(* a thread is blocked only while ANOTHER thread holds the lock *)
Theorem blocked_only_while_other_holds c i p : Inv c ->
  nth_error (threads c) i = Some p -> p <> [] -> ~ enabled c i ->
  exists j, owner c = Some j /\ j <> i.
Proof.
  intros HI Hp Hne Hdis. destruct (owner c) as [j|] eqn:Ho.
  - exists j. split; [reflexivity|]. intros ->. apply Hdis. apply holder_enabled; assumption.
  - exfalso. apply Hdis. eapply lock_free_all_enabled; eassumption.
Qed.
Print Assumptions blocked_only_while_other_holds.

Definition sumN (ns : list N) : N := fold_right N.add 0%N ns.

Lemma wb_true_shape p : wb true p = true ->
  exists ns rest, p = map Draw ns ++ Rel :: rest /\ wb false rest = true.
Proof.
  induction p as [|e p IH]; cbn; [discriminate|]. destruct e as [| |n|]; try discriminate.
  - intros H. exists [], p. split; [reflexivity|exact H].
  - intros H. destruct (IH H) as (ns & rest & -> & Hr). exists (n :: ns), rest. split; [reflexivity|exact Hr].
Qed.

Lemma run_section j rest ns : forall c,
  owner c = Some j -> nth_error (threads c) j = Some (map Draw ns ++ Rel :: rest) ->
  exists c', exec c (repeat j (S (length ns))) c' /\ owner c' = None
             /\ cursor c' = (cursor c + sumN ns)%N /\ nth_error (threads c') j = Some rest.
Proof.
  induction ns as [|n ns IH]; intros c Ho Hn; cbn [map app length repeat sumN fold_right] in *.
  - assert (Hlt : j < length (threads c)) by (apply nth_error_Some; congruence).
    eexists. split; [eapply exec_step; [eapply s_rel; eassumption|apply exec_nil]|].
    cbn. rewrite N.add_0_r. repeat split. apply nth_error_set_nth_eq. exact Hlt.
  - assert (Hlt : j < length (threads c)) by (apply nth_error_Some; congruence).
    destruct (IH {| owner := Some j; cursor := (cursor c + n)%N; threads := set_nth j (map Draw ns ++ Rel :: rest) (threads c) |})
      as (c' & He & Ho' & Hc' & Hn'); [reflexivity|cbn; apply nth_error_set_nth_eq; exact Hlt|].
    exists c'. split; [eapply exec_step; [eapply s_draw; eassumption|exact He]|].
    cbn in Hc'. rewrite Hc'. repeat split; try assumption. fold (sumN ns). lia.
Qed.

(* the holder can always run to its release: the rest of its critical section is d draws then Rel, and
   d+1 consecutive steps of the holder free the lock (cursor advanced by exactly the section's draws) *)
Theorem holder_releases c j : Inv c -> owner c = Some j ->
  exists ns rest c', nth_error (threads c) j = Some (map Draw ns ++ Rel :: rest)
     /\ exec c (repeat j (S (length ns))) c' /\ owner c' = None
     /\ cursor c' = (cursor c + sumN ns)%N /\ nth_error (threads c') j = Some rest.
Proof.
  intros (Hwb & Hown) Ho. specialize (Hown j Ho).
  destruct (nth_error (threads c) j) as [p|] eqn:Ep; [|apply nth_error_None in Ep; lia].
  specialize (Hwb j p Ep). unfold holds in Hwb. rewrite Ho, Nat.eqb_refl in Hwb.
  destruct (wb_true_shape p Hwb) as (ns & rest & -> & _).
  destruct (run_section j rest ns c Ho Ep) as (c' & H). exists ns, rest, c'. split; [reflexivity|exact H].
Qed.
Print Assumptions holder_releases.

(* ------------------------------------------------------------------------------------------ *)
(** * 5. Negative example and satisfiability of the hypotheses *)

(* a nested lock on the non-reentrant mutex: one thread alone deadlocks itself *)
Theorem self_deadlock :
  exists c, reachable 0 [[Acq; Acq; Rel; Rel]] c /\ ~ finished c /\ stuck c.
Proof.
  exists {| owner := Some 0; cursor := 0%N; threads := [[Acq; Rel; Rel]] |}. split; [|split].
  - exists [0]. apply exec_run. reflexivity.
  - intros H. inversion H as [|p l Hp Hl]; subst. discriminate.
  - intros i c' Hs. apply step_fn_complete in Hs. destruct i as [|[|i]]; cbn in Hs; discriminate.
Qed.
Print Assumptions self_deadlock.

(* the same program is rejected by well_bracketed, so it does not contradict no_call_blocks_forever *)
Example self_deadlock_not_wb : ~ all_wb [[Acq; Acq; Rel; Rel]].
Proof. intros H. inversion H as [|p l Hp Hl]; subst. discriminate. Qed.

Definition ex_ps : list program := [[Acq; Draw 2; Rel; Acq; Draw 1; Rel]; [Acq; Draw 3; Rel]].
Definition ex_sch : list nat := [0; 0; 0; 1; 1; 1; 0; 0; 0].

Example ex_ps_wb : all_wb ex_ps.
Proof. repeat constructor. Qed.

Example two_threads_complete :
  exec (init 10 ex_ps) ex_sch {| owner := None; cursor := 16%N; threads := [[]; []] |}
  /\ finished {| owner := None; cursor := 16%N; threads := [[]; []] |}
  /\ length ex_sch = length (concat ex_ps)
  /\ trace (init 10 ex_ps) ex_sch =
       [(0, LAcq 10); (0, LDraw 10 2); (0, LRel 12);
        (1, LAcq 12); (1, LDraw 12 3); (1, LRel 15);
        (0, LAcq 15); (0, LDraw 15 1); (0, LRel 16)].
Proof.
  split; [apply exec_run; reflexivity|]. split; [repeat constructor|]. split; reflexivity.
Qed.

(* a different interleaving of the same threads: thread 1 first; thread 0 is blocked meanwhile *)
Example two_threads_other_order :
  exists c, exec (init 10 ex_ps) [1; 1] c /\ owner c = Some 1 /\ ~ enabled c 0 /\ enabled c 1.
Proof.
  eexists. split; [apply exec_run; reflexivity|]. split; [reflexivity|]. split.
  - intros (c' & Hs). apply step_fn_complete in Hs. discriminate.
  - eexists. apply step_fn_sound. reflexivity.
Qed.

(* the liveness theorems instantiated on the example *)
Example ex_liveness :
  (forall sch c, exec (init 10 ex_ps) sch c -> length sch <= 9) /\
  (forall sch c, exec (init 10 ex_ps) sch c -> stuck c -> finished c).
Proof.
  destruct (no_call_blocks_forever 10 ex_ps ex_ps_wb) as (_ & Hb & Hm). split; [exact Hb|exact Hm].
Qed.

Print Assumptions exec_inv.
Print Assumptions exec_length.
Print Assumptions exec_run.
Print Assumptions complete_exec_length.
