(* Part 10: C09 -- success characterisations of every operation of [step fixed] by decidable predicates on the state. *)
From Coq Require Import List NArith Bool Arith Lia.
From CC Require Import Policy Structure Keys KeysMachine SelProofs GoodProofs CoverProofs1 CoverProofs2
                       RefreshProofs DisabledProofs KInv1 KInv2 KInv5 KInv6.
Import ListNotations.
Local Open Scope N_scope.

(* ---------------------------------------------------------------- update *)
Definition update_ok_b (m : msk) : bool :=
  forallb (fun rv => rmem (fst rv) (m_secrets m) || snd (snd rv)) (omega_map (m_st m)).

Lemma omega_map_NoDup st : NoDup (map fst (omega_map st)).
Proof.
  unfold omega_map.
  assert (G : forall (l acc : list (rightk * (bool * bool))), NoDup (map fst acc) ->
     NoDup (map fst (fold_left (fun acc '(r, v) => if rmem r acc then rreplace r v acc else acc ++ [(r, v)]) l acc))).
  { induction l as [|[r v] l IH]; intros acc Hacc; cbn [fold_left]; [exact Hacc|]. apply IH. destruct (rmem r acc) eqn:E.
    - rewrite keys_rreplace. exact Hacc.
    - rewrite map_app. cbn. apply NoDup_app_intro; [exact Hacc|constructor; [intros []|constructor]|].
      intros x Hx [<-|[]]. apply rmem_false in E. contradiction. }
  apply G. constructor.
Qed.

Lemma rmem_keys {A B} r (l : list (rightk * A)) (l' : list (rightk * B)) : map fst l = map fst l' -> rmem r l = rmem r l'.
Proof.
  intros E. destruct (rmem r l) eqn:E1; symmetry.
  - apply rmem_true. rewrite <- E. apply rmem_true. exact E1.
  - apply rmem_false. rewrite <- E. apply rmem_false. exact E1.
Qed.

Lemma upd_loop_err : forall rights secs ctr, NoDup (map fst rights) -> nonempty_chains secs ->
  (upd_loop rights secs ctr = RErr <-> exists r h, In (r, (h, false)) rights /\ rmem r secs = false).
Proof.
  induction rights as [|[r0 [h0 e0]] rights IH]; intros secs ctr Hnd Hne; cbn [upd_loop].
  - split; [discriminate|intros (r & h & [] & _)].
  - cbn in Hnd. inversion Hnd as [|? ? Hr0 Hnd']; subst. destruct (rlookup r0 secs) as [[|[fl s] older]|] eqn:El.
    + exfalso. eapply Hne; [apply rlookup_In; exact El|reflexivity].
    + rewrite IH; [|exact Hnd'|intros r ch Hin; apply rreplace_In in Hin; destruct Hin as [E|Hin]; [inversion E; subst; discriminate|eapply Hne; exact Hin]].
      split; intros (r & h & Hin & Hm).
      * exists r, h. split; [right; exact Hin|]. rewrite <- Hm. apply rmem_keys. symmetry. apply keys_rreplace.
      * destruct Hin as [E|Hin].
        -- inversion E; subst. unfold rmem in Hm. rewrite El in Hm. discriminate.
        -- exists r, h. split; [exact Hin|]. rewrite <- Hm. apply rmem_keys. apply keys_rreplace.
    + destruct e0; cbn [negb].
      * rewrite IH; [|exact Hnd'|intros r ch Hin; apply in_app_iff in Hin; destruct Hin as [Hin|[E|[]]]; [eapply Hne; exact Hin|inversion E; subst; discriminate]].
        split; intros (r & h & Hin & Hm).
        -- exists r, h. split; [right; exact Hin|]. apply rmem_false. apply rmem_false in Hm. intros Hk. apply Hm. rewrite map_app. apply in_app_iff. left. exact Hk.
        -- destruct Hin as [E|Hin]; [inversion E|]. exists r, h. split; [exact Hin|]. apply rmem_false. apply rmem_false in Hm. rewrite map_app. intros Hk.
           apply in_app_iff in Hk. destruct Hk as [Hk|[<-|[]]]; [contradiction|]. apply Hr0. apply in_map_iff. exists (r0, (h, false)). split; [reflexivity|exact Hin].
      * split; [intros _|reflexivity]. exists r0, h0. split; [left; reflexivity|]. unfold rmem. rewrite El. reflexivity.
Qed.

Lemma rmem_kept m r : rmem r (omega_map (m_st m)) = true -> rmem r (kept_secrets m) = rmem r (m_secrets m).
Proof.
  intros Ho. unfold kept_secrets. destruct (rmem r (m_secrets m)) eqn:E.
  - apply rmem_true. apply rmem_true in E. apply in_map_iff in E. destruct E as ([r0 ch] & E0 & Hin). cbn in E0. subst r0.
    apply in_map_iff. exists (r, ch). split; [reflexivity|]. apply filter_In. split; [exact Hin|exact Ho].
  - apply rmem_false. apply rmem_false in E. intros Hk. apply E. apply in_map_iff in Hk. destruct Hk as ([r0 ch] & E0 & Hin). cbn in E0. subst r0.
    apply filter_In in Hin. apply in_map_iff. exists (r, ch). split; [reflexivity|apply Hin].
Qed.

Theorem update_ok_iff s : reach s -> (snd (step fixed s OUpdate) = ObOk <-> update_ok_b (st_msk s) = true).
Proof.
  intros Hr. destruct (inv14_reach s Hr) as [[Hne _ _] _]. cbn [step]. rewrite update_msk_fixed.
  assert (Hk : nonempty_chains (kept_secrets (st_msk s))) by (intros r ch Hin; apply filter_In in Hin; eapply Hne; apply Hin).
  pose proof (upd_loop_err (omega_map (m_st (st_msk s))) (kept_secrets (st_msk s)) (st_ctr s) (omega_map_NoDup _) Hk) as He.
  unfold update_ok_b. destruct (upd_loop _ _ _) as [[secs c]|] eqn:Eu; cbn.
  - split; [intros _|reflexivity]. apply forallb_forall. intros [r [h e]] Hin. cbn. destruct e; [apply orb_true_r|]. rewrite orb_false_r.
    destruct (rmem r (m_secrets (st_msk s))) eqn:Em; [reflexivity|]. exfalso.
    assert (Hw : exists r h, In (r, (h, false)) (omega_map (m_st (st_msk s))) /\ rmem r (kept_secrets (st_msk s)) = false).
    { exists r, h. split; [exact Hin|]. rewrite rmem_kept; [exact Em|]. apply rmem_true. apply in_map_iff. exists (r, (h, false)). split; [reflexivity|exact Hin]. }
    apply He in Hw. discriminate.
  - split; [discriminate|]. intros Hf. exfalso. destruct (proj1 He eq_refl) as (r & h & Hin & Hm).
    rewrite forallb_forall in Hf. specialize (Hf _ Hin). cbn in Hf. rewrite orb_false_r in Hf.
    rewrite rmem_kept in Hm; [congruence|]. apply rmem_true. apply in_map_iff. exists (r, (h, false)). split; [reflexivity|exact Hin].
Qed.
Print Assumptions update_ok_iff.
(* i.e. the update fails iff some right of the structure that the MSK does not have yet is born disabled *)
Corollary update_err_iff s : reach s ->
  (snd (step fixed s OUpdate) = ObErr <-> exists r h, In (r, (h, false)) (omega_map (m_st (st_msk s))) /\ rmem r (m_secrets (st_msk s)) = false).
Proof.
  intros Hr. pose proof (update_ok_iff s Hr) as Hok.
  assert (Hobs : snd (step fixed s OUpdate) = ObOk \/ snd (step fixed s OUpdate) = ObErr).
  { cbn [step]. destruct (update_msk fixed (st_msk s) (st_ctr s)) as [[[|] m'] c]; [left|right]; reflexivity. }
  unfold update_ok_b in Hok. split.
  - intros He. destruct (forallb _ (omega_map (m_st (st_msk s)))) eqn:Ef; [rewrite (proj2 Hok eq_refl) in He; discriminate|].
    clear Hok. induction (omega_map (m_st (st_msk s))) as [|[r [h e]] l IH]; [discriminate|]. cbn in Ef. apply andb_false_iff in Ef. destruct Ef as [Ef|Ef].
    + apply orb_false_iff in Ef. destruct Ef as [E1 E2]. subst e. exists r, h. split; [left; reflexivity|exact E1].
    + destruct (IH Ef) as (r' & h' & Hin & Hm). exists r', h'. split; [right; exact Hin|exact Hm].
  - intros (r & h & Hin & Hm). destruct Hobs as [Ho|Ho]; [|exact Ho]. apply Hok in Ho. rewrite forallb_forall in Ho. specialize (Ho _ Hin). cbn in Ho.
    rewrite Hm in Ho. discriminate.
Qed.

(* ---------------------------------------------------------------- rekey, prune, keygen *)
Definition rights_known (m : msk) (rs : list rightk) : bool := forallb (fun r => rmem r (m_secrets m)) rs.

Theorem rekey_ok_iff s p : snd (step fixed s (ORekey p)) = ObOk <->
  exists rs, usk_rights fixed (m_st (st_msk s)) p = ROk rs /\ rights_known (st_msk s) rs = true.
Proof.
  cbn [step]. destruct (usk_rights fixed (m_st (st_msk s)) p) as [rs|]; [|split; [discriminate|intros (rs & E & _); discriminate]].
  unfold rekey, rights_known. destruct (forallb _ rs) eqn:Ef.
  - destruct (rekey_loop fixed rs (m_secrets (st_msk s)) (st_ctr s)). cbn. split; [intros _; exists rs; split; [reflexivity|exact Ef]|reflexivity].
  - cbn. split; [discriminate|]. intros (rs' & E & Hf). inversion E; subst. congruence.
Qed.
Theorem prune_ok_iff s p : snd (step fixed s (OPrune p)) = ObOk <-> exists rs, usk_rights fixed (m_st (st_msk s)) p = ROk rs.
Proof.
  cbn [step]. destruct (usk_rights fixed (m_st (st_msk s)) p) as [rs|]; cbn; split; try discriminate; try reflexivity; eauto. intros (rs & E). discriminate.
Qed.

Lemma latest_all_ok m rs : nonempty_chains (m_secrets m) -> ((exists chs, latest_all m rs = ROk chs) <-> rights_known m rs = true).
Proof.
  intros Hne. unfold rights_known. induction rs as [|r rs IH]; cbn [latest_all forallb]; [split; [reflexivity|eauto]|].
  unfold rmem at 1. destruct (rlookup r (m_secrets m)) as [[|[fl s] older]|] eqn:El.
  - exfalso. eapply Hne; [apply rlookup_In; exact El|reflexivity].
  - cbn. rewrite <- IH. destruct (latest_all m rs) as [l|]; split; eauto; intros (chs & E); discriminate.
  - cbn. split; [intros (chs & E); discriminate|discriminate].
Qed.
Theorem keygen_ok_iff s p : reach s -> (snd (step fixed s (OKeygen p)) = ObOk <->
  exists rs, usk_rights fixed (m_st (st_msk s)) p = ROk rs /\ rights_known (st_msk s) rs = true).
Proof.
  intros Hr. destruct (inv14_reach s Hr) as [[Hne _ _] _]. cbn [step].
  destruct (usk_rights fixed (m_st (st_msk s)) p) as [rs|]; [|split; [discriminate|intros (rs & E & _); discriminate]].
  unfold keygen. pose proof (latest_all_ok (st_msk s) rs Hne) as Hl. destruct (latest_all (st_msk s) rs) as [chs|]; cbn.
  - split; [intros _; exists rs; split; [reflexivity|apply Hl; eauto]|reflexivity].
  - split; [discriminate|]. intros (rs' & E & Hf). inversion E; subst. apply Hl in Hf. destruct Hf as (chs & E'). discriminate.
Qed.
Print Assumptions keygen_ok_iff.

(* ---------------------------------------------------------------- refresh *)
Theorem refresh_ok_iff s k keep : snd (step fixed s (ORefresh k keep)) = ObOk <->
  exists u id, nth_error (st_usks s) k = Some u /\ u_id u = Some id /\ existsb (N.eqb id) (m_users (st_msk s)) = true.
Proof.
  cbn [step]. destruct (nth_error (st_usks s) k) as [u|]; [|split; [discriminate|intros (u & id & E & _); discriminate]].
  rewrite refresh_fixed. destruct (u_id u) as [id|] eqn:Eid; [|cbn; split; [discriminate|intros (u' & id & E & E2 & _); inversion E; subst; congruence]].
  destruct (existsb (N.eqb id) (m_users (st_msk s))) eqn:Ex; cbn.
  - split; [intros _; exists u, id; repeat split; assumption|reflexivity].
  - split; [discriminate|]. intros (u' & id' & E & E2 & E3). inversion E; subst u'. rewrite Eid in E2. inversion E2; subst. congruence.
Qed.
(* in a reachable state: iff the index denotes an issued key (see also KInv1.refresh_issued_ok) *)
Theorem refresh_ok_iff_reach s k keep : reach s -> (snd (step fixed s (ORefresh k keep)) = ObOk <-> (k < length (st_usks s))%nat).
Proof.
  intros Hr. split; [|apply refresh_issued_ok; exact Hr]. intros H. apply refresh_ok_iff in H. destruct H as (u & id & E & _).
  apply nth_error_Some. rewrite E. discriminate.
Qed.

(* ---------------------------------------------------------------- encaps *)
Lemma all_rights_keys_ok_iff pk rs : (exists ks, all_rights_keys pk rs = ROk ks) <-> forallb (fun r => rmem r (p_keys pk)) rs = true.
Proof.
  induction rs as [|r rs IH]; cbn [all_rights_keys forallb]; [split; [reflexivity|eauto]|].
  unfold rmem at 1. destruct (rlookup r (p_keys pk)) as [sk|]; cbn.
  - rewrite <- IH. destruct (all_rights_keys pk rs) as [l|]; split; eauto; intros (ks & E); discriminate.
  - split; [intros (ks & E); discriminate|discriminate].
Qed.
Theorem encaps_ok_iff s j p : snd (step fixed s (OEncaps j p)) = ObOk <->
  exists pk rs, nth_error (st_mpks s) j = Some pk /\ enc_rights fixed (p_st pk) p = ROk rs /\
                forallb (fun r => rmem r (p_keys pk)) rs = true.
Proof.
  cbn [step]. destruct (nth_error (st_mpks s) j) as [pk|]; [|split; [discriminate|intros (pk & rs & E & _); discriminate]].
  destruct (enc_rights fixed (p_st pk) p) as [rs|] eqn:Er; [|split; [discriminate|intros (pk' & rs & E & E2 & _); inversion E; subst; congruence]].
  unfold encaps_rights. pose proof (all_rights_keys_ok_iff pk rs) as Hl. destruct (all_rights_keys pk rs) as [ks|]; cbn.
  - split; [intros _; exists pk, rs; split; [reflexivity|split; [exact Er|apply Hl; eauto]]|reflexivity].
  - split; [discriminate|]. intros (pk' & rs' & E & E2 & Hf). inversion E; subst pk'. rewrite Er in E2. inversion E2; subst rs'. apply Hl in Hf. destruct Hf as (ks & E'). discriminate.
Qed.
Print Assumptions encaps_ok_iff.

(* ---------------------------------------------------------------- structure edits and the always-successful calls *)
Theorem edit_ok_iff s : 
  (forall d, snd (step fixed s (OAddAnarchy d)) = ObOk <-> exists t, add_anarchy d (m_st (st_msk s)) = Ok t) /\
  (forall d, snd (step fixed s (OAddHierarchy d)) = ObOk <-> exists t, add_hierarchy d (m_st (st_msk s)) = Ok t) /\
  (forall d, snd (step fixed s (ODelDim d)) = ObOk <-> exists t, del_dimension d (m_st (st_msk s)) = Ok t) /\
  (forall d n h a, snd (step fixed s (OAddAttr d n h a)) = ObOk <-> exists t, add_attribute true d n h a (m_st (st_msk s)) = Ok t) /\
  (forall d n, snd (step fixed s (ODelAttr d n)) = ObOk <-> exists t, del_attribute d n (m_st (st_msk s)) = Ok t) /\
  (forall d n n', snd (step fixed s (ORename d n n')) = ObOk <-> exists t, rename_attribute d n n' (m_st (st_msk s)) = Ok t) /\
  (forall d n, snd (step fixed s (ODisable d n)) = ObOk <-> exists t, disable_attribute d n (m_st (st_msk s)) = Ok t).
Proof.
  repeat split; intros; cbn [step fx_ids fixed KeysMachine.fx_all] in *; unfold edit in *;
    match goal with
    | H : context [match ?r with Ok _ => _ | _ => _ end] |- _ => destruct r; cbn in H; try discriminate; eauto
    | H : exists t, ?r = Ok t |- _ => destruct H as (t & ->); reflexivity
    end.
Qed.
Theorem always_ok s : snd (step fixed s OSetup) = ObOk /\ snd (step fixed s OMpk) = ObOk /\ forall o, snd (step fixed s (ORoundTrip o)) = ObOk.
Proof. cbn [step]. destruct (update_msk fixed empty_msk 0) as [[r m'] c]. repeat split. Qed.

(* what the decidable predicates say on a concrete state *)
Example ok_iff_nonvacuous :
  let s := run_state fixed init hist_fail in
  update_ok_b (st_msk s) = true /\ rights_known (st_msk s) [[]; [0]] = true /\ rights_known (st_msk s) [[1]] = false /\
  update_ok_b (st_msk (fst (step fixed (fst (step fixed s (OAddAttr sD sb false None))) (ODisable sD sb)))) = false.
Proof. vm_compute. repeat split; reflexivity. Qed.

(* ---------------------------------------------------------------- I5: a user key has at most one chain per right *)
Lemma flat_map_keys_NoDup {A B} (f : rightk * A -> list (rightk * B)) (l : list (rightk * A)) :
  (forall r a x, In x (f (r, a)) -> fst x = r) -> (forall ra, (length (f ra) <= 1)%nat) ->
  NoDup (map fst l) -> NoDup (map fst (flat_map f l)).
Proof.
  intros Hk Hl. induction l as [|[r a] l IH]; cbn; intros Hnd; [constructor|]. inversion Hnd as [|? ? Hr Hnd']; subst.
  rewrite map_app. apply NoDup_app_intro; [|apply IH; exact Hnd'|].
  - specialize (Hl (r, a)). destruct (f (r, a)) as [|x [|y t]]; cbn in *; [constructor|constructor; [intros []|constructor]|lia].
  - intros k Hk1 Hk2. apply in_map_iff in Hk1. destruct Hk1 as (x & <- & Hx). rewrite (Hk r a x Hx) in Hk2. apply Hr.
    apply in_map_iff in Hk2. destruct Hk2 as (y & Ey & Hy). apply in_flat_map in Hy. destruct Hy as ([r' a'] & Hin & Hy).
    rewrite (Hk r' a' y Hy) in Ey. subst r'. apply in_map_iff. exists (r, a'). split; [reflexivity|exact Hin].
Qed.

Theorem usk_rights_unique s : reach s -> forall u, In u (st_usks s) -> NoDup (map fst (u_chains u)).
Proof.
  apply (reach_ind (fun s => forall u, In u (st_usks s) -> NoDup (map fst (u_chains u)))); [intros u []|].
  intros s0 o _ IH. destruct o; cbn [step]; unfold edit;
    try (match goal with |- context [match ?r with Ok _ => _ | _ => _ end] => destruct r end; cbn; exact IH).
  - destruct (update_msk fixed empty_msk 0) as [[r m'] c]. cbn. intros u [].
  - destruct (update_msk fixed (st_msk s0) (st_ctr s0)) as [[[|] m'] c]; cbn; exact IH.
  - exact IH.
  - destruct (usk_rights fixed (m_st (st_msk s0)) p) as [rs|]; [|exact IH]. destruct (rekey fixed (st_msk s0) rs (st_ctr s0)) as [[|] c]; cbn; exact IH.
  - destruct (usk_rights fixed (m_st (st_msk s0)) p) as [rs|]; cbn; exact IH.
  - destruct (usk_rights fixed (m_st (st_msk s0)) p) as [rs|] eqn:Eu; [|exact IH]. unfold keygen.
    destruct (latest_all (st_msk s0) rs) as [chs|] eqn:El; [|cbn; exact IH]. cbn. intros u Hu. apply in_app_iff in Hu.
    destruct Hu as [Hu|[<-|[]]]; [apply IH; exact Hu|]. cbn. destruct (latest_all_spec _ _ _ El) as [-> _]. eapply usk_rights_NoDup. exact Eu.
  - destruct (nth_error (st_usks s0) k) as [u|] eqn:En; [|exact IH]. pose proof (IH u (nth_error_In _ _ En)) as Hu.
    destruct (refresh fixed (st_msk s0) u keep) as [r u'] eqn:Er. cbn. intros u0 Hu0. apply set_nth_In in Hu0. destruct Hu0 as [->|Hu0]; [|apply IH; exact Hu0].
    assert (Hu' : u' = snd (refresh fixed (st_msk s0) u keep)) by (rewrite Er; reflexivity). rewrite refresh_fixed in Hu'.
    destruct (u_id u) as [id|]; [|subst u'; exact Hu]. destruct (negb _); [subst u'; exact Hu|]. cbn in Hu'. subst u'. cbn [u_chains].
    destruct keep; [unfold refresh_keep_chains|unfold refresh_nokeep_chains]; apply flat_map_keys_NoDup; try exact Hu.
    + intros r0 a x Hx. destruct (rlookup r0 (m_secrets (st_msk s0))) as [mch|]; [|destruct Hx]. destruct (refresh_chain fixed mch a); [|destruct Hx].
      destruct Hx as [<-|[]]. reflexivity.
    + intros [r0 a]. destruct (rlookup r0 (m_secrets (st_msk s0))) as [mch|]; [|cbn; lia]. destruct (refresh_chain fixed mch a); cbn; lia.
    + intros r0 a x Hx. destruct (rlookup r0 (m_secrets (st_msk s0))) as [[|[fl sk] older]|]; try destruct Hx as [<-|[]]; try destruct Hx. reflexivity.
    + intros [r0 a]. destruct (rlookup r0 (m_secrets (st_msk s0))) as [[|[fl sk] older]|]; cbn; lia.
  - destruct (nth_error (st_mpks s0) j) as [pk|]; [|exact IH]. destruct (enc_rights fixed (p_st pk) p) as [rs|]; [|exact IH].
    destruct (encaps_rights pk rs (st_ctr s0)) as [[x|] c]; cbn; exact IH.
  - destruct (nth_error (st_usks s0) k) as [u|]; [|exact IH]. destruct (nth_error (st_encs s0) e); [|exact IH]. destruct (u_chains u); exact IH.
  - destruct (nth_error (st_mpks s0) j) as [pk|]; [|exact IH]. destruct (nth_error (st_encs s0) e) as [x|]; [|exact IH].
    destruct (recaps fixed (st_msk s0) pk x (st_ctr s0)) as [[x'|] c]; cbn; exact IH.
  - exact IH.
Qed.
Print Assumptions usk_rights_unique.
