(* C11: every right of the access structure gets its own key slot, with the correct hybridization hint
   and status.
   - combine_hint: exact characterisation of `combine` by attribute-level selections (hint = OR, status = AND);
   - omega_complete / omega_sound: `omega` lists exactly the selections;
   - omega_keys_NoDup: distinct selections give distinct sorted rights (the HashMap built by the crate's
     `omega` never overwrites an entry);
   - omega_right_bytes_inj / omega_bytes_NoDup: the byte encoding of rights (key of the serialised maps)
     is injective on the rights of a well-formed structure. *)
From Coq Require Import List NArith Bool Arith Lia Permutation.
Require Import Policy Structure SelProofs GoodProofs AssocLemmas CoverProofs1 HierProofs WfProofs Leb.
Import ListNotations.
(* Leb.v opens N_scope globally; every numeral below carries an explicit %N / %nat. *)

(* ------------------------------------------------------------------------------------------- *)
(* 1. attribute-level selections and the exact content of combine                               *)
(* ------------------------------------------------------------------------------------------- *)
Inductive asel : list dimension -> list attribute -> Prop :=
| asel_nil : asel [] []
| asel_skip d ds l : asel ds l -> asel (d :: ds) l
| asel_pick d ds l na : In na (attrs_of d) -> asel ds l -> asel (d :: ds) (snd na :: l).

Theorem combine_hint : forall ds ids h e,
  In (ids, h, e) (combine ds) <->
  exists l, asel ds l /\ ids = map a_id l /\ h = existsb a_hyb l /\ e = forallb a_enc l.
Proof.
  induction ds as [|d rest IH]; intros ids h e.
  - cbn [combine]. split.
    + intros [H|[]]. inversion H; subst. exists []. repeat split. constructor.
    + intros (l & Hs & Hi & Hh & He). inversion Hs; subst. left. reflexivity.
  - cbn [combine]. rewrite in_app_iff, in_flat_map. split.
    + intros [H|(na & Hna & H)].
      * apply IH in H. destruct H as (l & Hs & Hi & Hh & He). exists l. repeat split; try assumption.
        apply asel_skip. exact Hs.
      * apply in_map_iff in H. destruct H as ([[ids' h'] e'] & E & Hpc). inversion E; subst; clear E.
        apply IH in Hpc. destruct Hpc as (l & Hs & Hi & Hh & He). subst.
        exists (snd na :: l). repeat split.
        -- apply asel_pick; assumption.
        -- cbn [existsb]. apply orb_comm.
        -- cbn [forallb]. apply andb_comm.
    + intros (l & Hs & Hi & Hh & He).
      inversion Hs as [|d' ds' l' Hs'|d' ds' l' na Hna Hs']; subst.
      * left. apply IH. exists l. repeat split. exact Hs'.
      * right. exists na. split; [exact Hna|]. apply in_map_iff.
        exists (map a_id l', existsb a_hyb l', forallb a_enc l'). split.
        -- cbn [map existsb forallb]. rewrite (orb_comm (a_hyb (snd na))), (andb_comm (a_enc (snd na))). reflexivity.
        -- apply IH. exists l'. repeat split. exact Hs'.
Qed.
Print Assumptions combine_hint.

(* the empty selection: no attribute, classic (non-hybridized) and active *)
Lemma combine_empty_selection ds : In ([], false, true) (combine ds).
Proof.
  apply combine_hint. exists []. repeat split. induction ds as [|d ds IH]; [constructor|apply asel_skip; exact IH].
Qed.

(* link with the id-level selections of SelProofs *)
Lemma asel_sel ds l : asel ds l -> sel ds (map a_id l).
Proof.
  induction 1 as [|d ds l _ IH|d ds l na Hna _ IH]; cbn [map].
  - constructor.
  - apply sel_skip. exact IH.
  - apply sel_pick; [|exact IH]. unfold dim_ids. apply in_map_iff. exists na. split; [reflexivity|exact Hna].
Qed.
Lemma sel_asel ds p : sel ds p -> exists l, asel ds l /\ p = map a_id l.
Proof.
  induction 1 as [|d ds p _ IH|d ds p i Hi _ IH].
  - exists []. split; [constructor|reflexivity].
  - destruct IH as (l & Hs & ->). exists l. split; [apply asel_skip; exact Hs|reflexivity].
  - destruct IH as (l & Hs & ->). unfold dim_ids in Hi. apply in_map_iff in Hi. destruct Hi as (na & <- & Hna).
    exists (snd na :: l). split; [apply asel_pick; assumption|reflexivity].
Qed.
Corollary sel_iff_asel ds p : sel ds p <-> exists l, asel ds l /\ p = map a_id l.
Proof. split; [apply sel_asel|]. intros (l & Hs & ->). apply asel_sel. exact Hs. Qed.

(* ------------------------------------------------------------------------------------------- *)
(* 2. omega lists exactly the selections, with OR-ed hint and AND-ed status                     *)
(* ------------------------------------------------------------------------------------------- *)
Theorem omega_complete : forall st l, asel (map snd (dims st)) l ->
  In (right_of_point (map a_id l), (existsb a_hyb l, forallb a_enc l)) (omega st).
Proof.
  intros st l Hs. unfold omega. apply in_map_iff.
  exists (map a_id l, existsb a_hyb l, forallb a_enc l). split; [reflexivity|].
  apply combine_hint. exists l. repeat split. exact Hs.
Qed.
Print Assumptions omega_complete.

Theorem omega_sound : forall st r h e, In (r, (h, e)) (omega st) ->
  exists l, asel (map snd (dims st)) l /\ r = right_of_point (map a_id l) /\ h = existsb a_hyb l /\ e = forallb a_enc l.
Proof.
  intros st r h e Hin. unfold omega in Hin. apply in_map_iff in Hin.
  destruct Hin as ([[ids h'] e'] & E & Hc). inversion E; subst; clear E.
  apply combine_hint in Hc. destruct Hc as (l & Hs & -> & -> & ->). exists l. repeat split. exact Hs.
Qed.
Print Assumptions omega_sound.

Corollary omega_iff st r h e : In (r, (h, e)) (omega st) <->
  exists l, asel (map snd (dims st)) l /\ r = right_of_point (map a_id l) /\ h = existsb a_hyb l /\ e = forallb a_enc l.
Proof. split; [apply omega_sound|]. intros (l & Hs & -> & -> & ->). apply omega_complete. exact Hs. Qed.

Lemma omega_keys st : map fst (omega st) = map right_of_point (points (map snd (dims st))).
Proof.
  unfold omega, points. rewrite !map_map. apply map_ext. intros [[ids h] e]. reflexivity.
Qed.

(* ------------------------------------------------------------------------------------------- *)
(* 3a. two selections with the same id set are the same selection; no collision in omega        *)
(* ------------------------------------------------------------------------------------------- *)
Lemma NoDup_map_inj_in {A B} (f : A -> B) (l : list A) :
  NoDup l -> (forall x y, In x l -> In y l -> f x = f y -> x = y) -> NoDup (map f l).
Proof.
  induction l as [|a l IH]; intros Hnd Hinj; cbn [map]; [constructor|].
  inversion Hnd as [|? ? Ha Hnd']; subst. constructor.
  - intros Hin. apply in_map_iff in Hin. destruct Hin as (b & E & Hb).
    assert (b = a) by (apply Hinj; [right; exact Hb|left; reflexivity|exact E]). subst b. contradiction.
  - apply IH; [exact Hnd'|]. intros x y Hx Hy. apply Hinj; right; assumption.
Qed.

Theorem points_sort_inj : forall ds, NoDup (all_ids ds) ->
  forall p1 p2, sel ds p1 -> sel ds p2 -> Permutation p1 p2 -> p1 = p2.
Proof.
  induction ds as [|d ds IH]; intros Hnd p1 p2 H1 H2 Hp.
  - inversion H1; inversion H2; subst. reflexivity.
  - cbn [all_ids flat_map] in Hnd. fold (all_ids ds) in Hnd.
    pose proof (NoDup_app_remove_l _ _ Hnd) as Hnd'.
    inversion H1 as [|d1 ds1 q1 Hs1|d1 ds1 q1 i Hi Hs1]; subst;
    inversion H2 as [|d2 ds2 q2 Hs2|d2 ds2 q2 j Hj Hs2]; subst.
    + apply IH; assumption.
    + exfalso. apply (NoDup_app_disjoint _ _ j Hnd Hj). apply (sel_incl _ _ Hs1).
      eapply Permutation_in; [symmetry; exact Hp|left; reflexivity].
    + exfalso. apply (NoDup_app_disjoint _ _ i Hnd Hi). apply (sel_incl _ _ Hs2).
      eapply Permutation_in; [exact Hp|left; reflexivity].
    + assert (Hij : In i (j :: q2)) by (eapply Permutation_in; [exact Hp|left; reflexivity]).
      destruct Hij as [<-|Hiq].
      * f_equal. apply IH; try assumption. eapply Permutation_cons_inv. exact Hp.
      * exfalso. apply (NoDup_app_disjoint _ _ i Hnd Hi). apply (sel_incl _ _ Hs2). exact Hiq.
Qed.
Print Assumptions points_sort_inj.

(* within a dimension with distinct ids, an id determines its attribute *)
Lemma dim_id_attr d na na' : NoDup (dim_ids d) -> In na (attrs_of d) -> In na' (attrs_of d) ->
  a_id (snd na) = a_id (snd na') -> na = na'.
Proof.
  unfold dim_ids. induction (attrs_of d) as [|x l IH]; intros Hnd H1 H2 E; [destruct H1|].
  cbn [map] in Hnd. inversion Hnd as [|? ? Hx Hnd']; subst.
  destruct H1 as [<-|H1]; destruct H2 as [<-|H2].
  - reflexivity.
  - exfalso. apply Hx. rewrite E. apply in_map_iff. exists na'. split; [reflexivity|exact H2].
  - exfalso. apply Hx. rewrite <- E. apply in_map_iff. exists na. split; [reflexivity|exact H1].
  - apply IH; assumption.
Qed.

(* attribute-level form: the id set determines the selected attributes (hence hint and status) *)
Theorem asel_perm_inj : forall ds, NoDup (all_ids ds) ->
  forall l1 l2, asel ds l1 -> asel ds l2 -> Permutation (map a_id l1) (map a_id l2) -> l1 = l2.
Proof.
  induction ds as [|d ds IH]; intros Hnd l1 l2 H1 H2 Hp.
  - inversion H1; inversion H2; subst. reflexivity.
  - cbn [all_ids flat_map] in Hnd. fold (all_ids ds) in Hnd.
    pose proof (NoDup_app_remove_l _ _ Hnd) as Hnd'.
    pose proof (NoDup_app_remove_r _ _ Hnd) as Hndd.
    assert (Hd : forall na, In na (attrs_of d) -> In (a_id (snd na)) (dim_ids d)).
    { intros na Hna. unfold dim_ids. apply in_map_iff. exists na. split; [reflexivity|exact Hna]. }
    inversion H1 as [|d1 ds1 q1 Hs1|d1 ds1 q1 na Hna Hs1]; subst;
    inversion H2 as [|d2 ds2 q2 Hs2|d2 ds2 q2 nb Hnb Hs2]; subst.
    + apply IH; assumption.
    + exfalso. apply (NoDup_app_disjoint _ _ (a_id (snd nb)) Hnd (Hd nb Hnb)).
      apply (sel_incl _ _ (asel_sel _ _ Hs1)). eapply Permutation_in; [symmetry; exact Hp|left; reflexivity].
    + exfalso. apply (NoDup_app_disjoint _ _ (a_id (snd na)) Hnd (Hd na Hna)).
      apply (sel_incl _ _ (asel_sel _ _ Hs2)). eapply Permutation_in; [exact Hp|left; reflexivity].
    + cbn [map] in Hp.
      assert (Hij : In (a_id (snd na)) (a_id (snd nb) :: map a_id q2)) by (eapply Permutation_in; [exact Hp|left; reflexivity]).
      destruct Hij as [E|Hiq].
      * assert (nb = na) by (apply (dim_id_attr d); assumption). subst nb.
        f_equal. apply IH; try assumption. eapply Permutation_cons_inv. exact Hp.
      * exfalso. apply (NoDup_app_disjoint _ _ (a_id (snd na)) Hnd (Hd na Hna)).
        apply (sel_incl _ _ (asel_sel _ _ Hs2)). exact Hiq.
Qed.
Print Assumptions asel_perm_inj.

Lemma NoDup_map_cons {A} (x : A) (P : list (list A)) : NoDup P -> NoDup (map (cons x) P).
Proof.
  intros H. apply NoDup_map_inj_in; [exact H|]. intros a b _ _ E. inversion E. reflexivity.
Qed.

Lemma points_NoDup : forall ds, NoDup (all_ids ds) -> NoDup (points ds).
Proof.
  induction ds as [|d ds IH]; intros Hnd.
  - cbn. constructor; [intros []|constructor].
  - cbn [all_ids flat_map] in Hnd. fold (all_ids ds) in Hnd.
    pose proof (IH (NoDup_app_remove_l _ _ Hnd)) as HP.
    pose proof (NoDup_app_remove_r _ _ Hnd) as Hndd.
    rewrite points_cons. apply NoDup_app_intro; [exact HP| |].
    + clear Hnd IH. unfold dim_ids in Hndd. induction (attrs_of d) as [|na L IHL]; cbn [flat_map]; [constructor|].
      cbn [map] in Hndd. inversion Hndd as [|? ? Hna HndL]; subst.
      apply NoDup_app_intro; [apply NoDup_map_cons; exact HP|apply IHL; exact HndL|].
      intros x Hx1 Hx2. apply in_map_iff in Hx1. destruct Hx1 as (q & <- & _).
      apply in_flat_map in Hx2. destruct Hx2 as (nb & Hnb & Hx2). apply in_map_iff in Hx2.
      destruct Hx2 as (q' & E & _). inversion E as [[E1 E2]]. apply Hna. rewrite <- E1.
      apply in_map_iff. exists nb. split; [reflexivity|exact Hnb].
    + intros p Hp1 Hp2. apply combine_sel in Hp1. apply in_flat_map in Hp2. destruct Hp2 as (na & Hna & Hp2).
      apply in_map_iff in Hp2. destruct Hp2 as (q & <- & _).
      apply (NoDup_app_disjoint _ _ (a_id (snd na)) Hnd).
      * unfold dim_ids. apply in_map_iff. exists na. split; [reflexivity|exact Hna].
      * apply (sel_incl _ _ Hp1). left. reflexivity.
Qed.

Lemma rights_NoDup ds : NoDup (all_ids ds) -> NoDup (map right_of_point (points ds)).
Proof.
  intros Hnd. apply NoDup_map_inj_in; [apply points_NoDup; exact Hnd|].
  intros p1 p2 H1 H2 E. apply combine_sel in H1, H2. apply (points_sort_inj ds Hnd); [exact H1|exact H2|].
  apply sort_eq_iff_perm. exact E.
Qed.

Theorem omega_keys_NoDup : forall st, wf_structure st -> NoDup (map fst (omega st)).
Proof.
  intros st (_ & _ & Hids). rewrite omega_keys. apply rights_NoDup. exact Hids.
Qed.
Print Assumptions omega_keys_NoDup.

(* consequence: omega is a function from rights to (hint, status), and has no repeated entry *)
Corollary omega_functional st r v1 v2 : wf_structure st -> In (r, v1) (omega st) -> In (r, v2) (omega st) -> v1 = v2.
Proof.
  intros Hwf H1 H2. pose proof (omega_keys_NoDup st Hwf) as Hnd.
  induction (omega st) as [|[r0 v0] l IH]; [destruct H1|].
  cbn [map fst] in Hnd. inversion Hnd as [|? ? Hr Hnd']; subst.
  destruct H1 as [E1|H1]; destruct H2 as [E2|H2].
  - congruence.
  - inversion E1; subst. exfalso. apply Hr. apply in_map_iff. exists (r, v2). split; [reflexivity|exact H2].
  - inversion E2; subst. exfalso. apply Hr. apply in_map_iff. exists (r, v1). split; [reflexivity|exact H1].
  - apply IH; assumption.
Qed.
Corollary omega_NoDup st : wf_structure st -> NoDup (omega st).
Proof. intros Hwf. eapply NoDup_map_inv. apply omega_keys_NoDup. exact Hwf. Qed.

(* pairwise form, with the selection made explicit: equal keys come from the same attribute selection *)
Corollary omega_same_key_same_selection st l1 l2 : wf_structure st ->
  asel (map snd (dims st)) l1 -> asel (map snd (dims st)) l2 ->
  right_of_point (map a_id l1) = right_of_point (map a_id l2) -> l1 = l2.
Proof.
  intros (_ & _ & Hids) H1 H2 E. apply (asel_perm_inj _ Hids); [exact H1|exact H2|]. apply sort_eq_iff_perm. exact E.
Qed.

(* ------------------------------------------------------------------------------------------- *)
(* 3b. the byte encoding of rights is injective on omega                                        *)
(* ------------------------------------------------------------------------------------------- *)
Lemma sel_below st p : wfb st -> (next_id st <= 2 ^ 64)%N -> sel (map snd (dims st)) p ->
  Forall (fun n => (n < 2 ^ 64)%N) (right_of_point p).
Proof.
  intros [_ Hb] Hn Hs. apply Forall_forall. intros x Hx.
  assert (Hxp : In x p) by (eapply Permutation_in; [apply sort_perm|exact Hx]).
  apply (sel_incl _ _ Hs) in Hxp. apply Hb in Hxp. eapply N.lt_le_trans; [exact Hxp|exact Hn].
Qed.

Lemma omega_right_below st r v : wfb st -> (next_id st <= 2 ^ 64)%N -> In (r, v) (omega st) ->
  Forall (fun n => (n < 2 ^ 64)%N) r.
Proof.
  intros Hwf Hn Hin. unfold omega in Hin. apply in_map_iff in Hin. destruct Hin as ([[ids h] e] & E & Hc).
  inversion E; subst; clear E. apply (sel_below st ids Hwf Hn). apply combine_sel.
  unfold points. apply in_map_iff. exists (ids, h, e). split; [reflexivity|exact Hc].
Qed.

Theorem omega_right_bytes_inj : forall st, wfb st -> (next_id st <= 2 ^ 64)%N ->
  forall r1 v1 r2 v2, In (r1, v1) (omega st) -> In (r2, v2) (omega st) ->
  right_bytes r1 = right_bytes r2 -> r1 = r2.
Proof.
  intros st Hwf Hn r1 v1 r2 v2 H1 H2 E.
  apply right_bytes_inj; [eapply omega_right_below; eassumption|eapply omega_right_below; eassumption|exact E].
Qed.
Print Assumptions omega_right_bytes_inj.

Theorem omega_bytes_NoDup : forall st, wfb st -> (next_id st <= 2 ^ 64)%N ->
  NoDup (map (fun x => right_bytes (fst x)) (omega st)).
Proof.
  intros st Hwf Hn. apply NoDup_map_inj_in; [apply omega_NoDup; apply Hwf|].
  intros [r1 v1] [r2 v2] H1 H2 E. cbn [fst] in E.
  assert (r1 = r2) by (eapply (omega_right_bytes_inj st Hwf Hn); eassumption). subst r2.
  f_equal. eapply omega_functional; [apply Hwf|eassumption|eassumption].
Qed.
Print Assumptions omega_bytes_NoDup.

(* in terms of id sets: two selections get the same key bytes iff they select the same set of ids ... *)
Theorem sel_bytes_iff_perm st p1 p2 : wfb st -> (next_id st <= 2 ^ 64)%N ->
  sel (map snd (dims st)) p1 -> sel (map snd (dims st)) p2 ->
  (right_bytes (right_of_point p1) = right_bytes (right_of_point p2) <-> Permutation p1 p2).
Proof.
  intros Hwf Hn H1 H2. split.
  - intros E. apply sort_eq_iff_perm. apply right_bytes_inj; [eapply sel_below; eassumption|eapply sel_below; eassumption|exact E].
  - intros Hp. unfold right_of_point. rewrite (perm_sort_eq _ _ Hp). reflexivity.
Qed.
Print Assumptions sel_bytes_iff_perm.
(* ... hence iff they are the same selection *)
Corollary sel_bytes_iff_eq st p1 p2 : wfb st -> (next_id st <= 2 ^ 64)%N ->
  sel (map snd (dims st)) p1 -> sel (map snd (dims st)) p2 ->
  (right_bytes (right_of_point p1) = right_bytes (right_of_point p2) <-> p1 = p2).
Proof.
  intros Hwf Hn H1 H2. rewrite (sel_bytes_iff_perm st p1 p2 Hwf Hn H1 H2). split.
  - destruct Hwf as [(_ & _ & Hids) _]. apply (points_sort_inj _ Hids); [exact H1|exact H2].
  - intros ->. reflexivity.
Qed.

(* the hypothesis NoDup (all_ids ..) of omega_keys_NoDup is necessary: with a repeated id (pinned-tree defect
   F2, id = live count, after delete + add) two different selections collide on one key *)
Definition clash_st : structure :=
  {| dims := [([68%N], Anarchy [([97%N], {| a_id := 0%N; a_hyb := false; a_enc := true |})]);
              ([69%N], Anarchy [([98%N], {| a_id := 0%N; a_hyb := true; a_enc := false |})])];
     next_id := 2%N |}.
Example omega_keys_NoDup_needs_wf_refuted : ~ NoDup (map fst (omega clash_st)).
Proof.
  vm_compute. intros H. inversion H as [|? ? _ H1]; subst. inversion H1 as [|? ? Hx _]; subst.
  apply Hx. left. reflexivity.
Qed.

(* ------------------------------------------------------------------------------------------- *)
(* 4. non-vacuity on a concrete structure                                                       *)
(* ------------------------------------------------------------------------------------------- *)
(* dimension "D" (anarchy): a = id 0, hybridized; b = id 1, disabled.
   dimension "S" (hierarchy): l = id 2; h = id 3. *)
Definition ex_a := {| a_id := 0%N; a_hyb := true;  a_enc := true |}.
Definition ex_b := {| a_id := 1%N; a_hyb := false; a_enc := false |}.
Definition ex_l := {| a_id := 2%N; a_hyb := false; a_enc := true |}.
Definition ex_h := {| a_id := 3%N; a_hyb := false; a_enc := true |}.
Definition ex_st : structure :=
  {| dims := [([68%N], Anarchy [([97%N], ex_a); ([98%N], ex_b)]);
              ([83%N], Hierarchy [([108%N], ex_l); ([104%N], ex_h)])];
     next_id := 4%N |}.

Ltac nodup_by_compute :=
  repeat (constructor; [cbn; intros Hin; repeat (destruct Hin as [Hin|Hin]; [discriminate Hin|]); exact Hin|]); constructor.

Example ex_wfb : wfb ex_st.
Proof.
  split; [split; [|split]|].
  - cbn. nodup_by_compute.
  - intros d dm Hin. cbn in Hin. destruct Hin as [E|[E|[]]]; inversion E; subst; cbn; nodup_by_compute.
  - cbn. nodup_by_compute.
  - intros i Hi. cbn in Hi. repeat (destruct Hi as [<-|Hi]; [reflexivity|]). destruct Hi.
Qed.
Example ex_next_id : (next_id ex_st <= 2 ^ 64)%N.
Proof. cbn [next_id ex_st]. apply N.leb_le. vm_compute. reflexivity. Qed.

Example ex_omega_length : length (omega ex_st) = 9%nat.
Proof. vm_compute. reflexivity. Qed.

(* the selection {a, h}: hybridized because a is, active because both are *)
Example ex_asel_ah : asel (map snd (dims ex_st)) [ex_a; ex_h].
Proof.
  cbn. apply (asel_pick _ _ _ ([97%N], ex_a)); [left; reflexivity|].
  apply (asel_pick _ _ _ ([104%N], ex_h)); [right; left; reflexivity|]. constructor.
Qed.
Example ex_entry_ah : In ([0%N; 3%N], (true, true)) (omega ex_st).
Proof. exact (omega_complete ex_st [ex_a; ex_h] ex_asel_ah). Qed.
(* the selection {b, l}: classic, and disabled because b is *)
Example ex_entry_bl : In ([1%N; 2%N], (false, false)) (omega ex_st).
Proof. vm_compute. tauto. Qed.
(* the empty selection (the broadcast right) *)
Example ex_entry_empty : In ([], (false, true)) (omega ex_st).
Proof. vm_compute. tauto. Qed.
Example ex_omega :
  omega ex_st =
  [([], (false, true)); ([2], (false, true)); ([3], (false, true));
   ([0], (true, true)); ([0; 2], (true, true)); ([0; 3], (true, true));
   ([1], (false, false)); ([1; 2], (false, false)); ([1; 3], (false, false))]%N.
Proof. vm_compute. reflexivity. Qed.

Example ex_keys_NoDup : NoDup (map fst (omega ex_st)).
Proof. apply omega_keys_NoDup. apply ex_wfb. Qed.
Example ex_bytes_NoDup : NoDup (map (fun x => right_bytes (fst x)) (omega ex_st)).
Proof. apply omega_bytes_NoDup; [apply ex_wfb|apply ex_next_id]. Qed.
Example ex_bytes :
  map (fun x => right_bytes (fst x)) (omega ex_st) = [[]; [2]; [3]; [0]; [0; 2]; [0; 3]; [1]; [1; 2]; [1; 3]]%N.
Proof. vm_compute. reflexivity. Qed.
Example ex_bytes_inj : forall r1 v1 r2 v2, In (r1, v1) (omega ex_st) -> In (r2, v2) (omega ex_st) ->
  right_bytes r1 = right_bytes r2 -> r1 = r2.
Proof. apply omega_right_bytes_inj; [apply ex_wfb|apply ex_next_id]. Qed.
