(* Prototype proofs (scratch): cover_iff_right *)
From Coq Require Import List NArith Bool Arith Lia Permutation.
Require Import Policy Structure SelProofs GoodProofs AssocLemmas CoverProofs1.
Import ListNotations.

Lemma Forall2_In_r {A B} (R : A -> B -> Prop) l1 l2 b : Forall2 R l1 l2 -> In b l2 -> exists a, In a l1 /\ R a b.
Proof. induction 1 as [|x y l1 l2 Hxy _ IH]; intros Hin; [destruct Hin|]. destruct Hin as [<-|Hin]; [exists x; split; [left; reflexivity|exact Hxy]|].
  destruct (IH Hin) as (a & Ha & HR). exists a. split; [right; exact Ha|exact HR]. Qed.
Lemma Forall2_In_l {A B} (R : A -> B -> Prop) l1 l2 a : Forall2 R l1 l2 -> In a l1 -> exists b, In b l2 /\ R a b.
Proof. induction 1 as [|x y l1 l2 Hxy _ IH]; intros Hin; [destruct Hin|]. destruct Hin as [<-|Hin]; [exists y; split; [left; reflexivity|exact Hxy]|].
  destruct (IH Hin) as (b & Hb & HR). exists b. split; [right; exact Hb|exact HR]. Qed.

Lemma NoDup_map_filter {A B} (f : A -> B) (g : A -> bool) l : NoDup (map f l) -> NoDup (map f (filter g l)).
Proof.
  induction l as [|x l IH]; cbn; intros H; [constructor|]. inversion H as [|? ? Hx H']; subst.
  destruct (g x); [|apply IH; exact H']. cbn. constructor; [|apply IH; exact H'].
  intros Hin. apply Hx. apply in_map_iff in Hin. destruct Hin as (y & E & Hy). apply filter_In in Hy. apply in_map_iff. exists y. tauto.
Qed.

Definition unmentioned (sem : list (str * dimension)) (d : str * dimension) : bool := negb (amem (fst d) sem).

Lemma complementary_points_spec st U ps : complementary_points st U = Ok ps ->
  exists sem, semantic_space st U [] = Ok sem /\
    forall p, In p ps <-> sel (map snd (filter (unmentioned sem) (dims st)) ++ map snd sem) p.
Proof.
  unfold complementary_points. destruct (semantic_space st U []) as [sem| | |]; try discriminate.
  intros H. inversion H; subst; clear H. exists sem. split; [reflexivity|]. intros p.
  rewrite sel_app, in_flat_map. split.
  - intros (t & Ht & Hp). destruct t as [[prefix h] e]. apply in_map_iff in Hp. destruct Hp as (suffix & <- & Hs).
    exists prefix, suffix. repeat split.
    + apply combine_sel. unfold points. apply in_map_iff. exists (prefix, h, e). split; [reflexivity|exact Ht].
    + apply combine_sel. exact Hs.
  - intros (p1 & p2 & -> & H1 & H2). apply combine_sel in H1, H2. unfold points in H1.
    apply in_map_iff in H1. destruct H1 as ([[prefix h] e] & E & Ht). cbn in E. subst.
    exists (p1, h, e). split; [exact Ht|]. apply in_map_iff. exists p2. split; [reflexivity|exact H2].
Qed.

Definition sem_rel st (U : list qattr) (sem : list (str * dimension)) : Prop :=
  Forall2 (fun u s => fst s = qdim u /\ exists dm, alookup (qdim u) (dims st) = Some dm /\ restrict dm (qname u) = Ok (snd s)) U sem.

Lemma sem_rel_fst st U sem : sem_rel st U sem -> map fst sem = map qdim U.
Proof. induction 1 as [|u s U sem [Hs _] _ IH]; cbn; [reflexivity|]. rewrite Hs, IH. reflexivity. Qed.

Lemma NL_sub_named st U sem : wf_structure st -> NoDup (map qdim U) -> sem_rel st U sem ->
  sub_named st (filter (unmentioned sem) (dims st) ++ sem).
Proof.
  intros Hwf HndU Hrel. pose proof Hwf as (Hn & Hnames & Hids). split.
  - rewrite map_app. apply NoDup_app_intro.
    + apply NoDup_map_filter. exact Hn.
    + rewrite (sem_rel_fst _ _ _ Hrel). exact HndU.
    + intros k H1 H2. apply in_map_iff in H1. destruct H1 as ([k' dm] & E & Hin). cbn in E. subst k'.
      apply filter_In in Hin. destruct Hin as [_ Hf]. unfold unmentioned in Hf. cbn in Hf.
      apply negb_true_iff in Hf. apply amem_false in Hf. contradiction.
  - intros k d' Hin. apply in_app_iff in Hin. destruct Hin as [Hin|Hin].
    + apply filter_In in Hin. destruct Hin as [Hin _]. exists d'. split; [apply In_alookup; assumption|]. split; [apply incl_refl|].
      eapply all_ids_dim_NoDup; [exact Hids|]. apply in_map_iff. exists (k, d'). split; [reflexivity|exact Hin].
    + destruct (Forall2_In_r _ _ _ _ Hrel Hin) as (u & Hu & Hfst & dm & Hdm & Hr). cbn in Hfst, Hr. subst k.
      exists dm. split; [exact Hdm|]. apply restrict_kept in Hr. destruct Hr as [Hk _].
      rewrite !dim_ids_ids_of, Hk. split.
      * unfold ids_of. intros i Hi. apply in_map_iff in Hi. destruct Hi as (na & <- & Hna). unfold ids_of. apply (in_map (fun x : str * attribute => a_id (snd x))). apply kept_incl in Hna. exact Hna.
      * apply kept_ids_NoDup.
        -- apply alookup_In in Hdm. eapply Hnames. exact Hdm.
        -- rewrite <- dim_ids_ids_of. eapply all_ids_dim_NoDup; [exact Hids|]. apply alookup_In in Hdm. apply in_map_iff. exists (qdim u, dm). split; [reflexivity|exact Hdm].
Qed.

Definition attr_of st (e : qattr) (dm : dimension) (a : attribute) : Prop :=
  alookup (qdim e) (dims st) = Some dm /\ alookup (qname e) (attrs_of dm) = Some a.
Definition id_rel st (e : qattr) (i : N) : Prop := exists dm a, attr_of st e dm a /\ a_id a = i.

Lemma ids_of_clause_spec st : forall E ids, ids_of_clause st E = Ok ids -> Forall2 (id_rel st) E ids.
Proof.
  induction E as [|e E IH]; intros ids H; cbn [ids_of_clause] in H.
  - inversion H; subst. constructor.
  - unfold get_attribute in H. destruct (alookup (qdim e) (dims st)) as [dm|] eqn:Edm; [|discriminate].
    destruct (alookup (qname e) (attrs_of dm)) as [a|] eqn:Ea; [|discriminate].
    destruct (ids_of_clause st E) as [r| | |] eqn:Er; try discriminate. inversion H; subst.
    constructor; [|apply IH; reflexivity]. exists dm, a. split; [split; assumption|reflexivity].
Qed.

(* name-level cover relation (rank formulated through [kept]) *)
Definition le_name (dm : dimension) (m n : str) : Prop := In m (names_of (kept dm n)).
Definition covers st (U E : list qattr) : Prop :=
  forall e, In e E ->
    ~ In (qdim e) (map qdim U) \/
    exists u dm, In u U /\ qdim u = qdim e /\ alookup (qdim e) (dims st) = Some dm /\ le_name dm (qname e) (qname u).

Lemma NoDup_map_inj_in {A B} (f : A -> B) l x y : NoDup (map f l) -> In x l -> In y l -> f x = f y -> x = y.
Proof.
  induction l as [|z l IH]; cbn; intros Hnd Hx Hy E; [destruct Hx|]. inversion Hnd as [|? ? Hz Hnd']; subst.
  destruct Hx as [<-|Hx]; destruct Hy as [<-|Hy]; try reflexivity.
  - exfalso. apply Hz. rewrite E. apply in_map. exact Hy.
  - exfalso. apply Hz. rewrite <- E. apply in_map. exact Hx.
  - apply IH; assumption.
Qed.

(* where can the id of an existing attribute be found in the named list? only under its own dimension's name *)
Lemma id_in_named st NL e dm a k d' : wf_structure st -> sub_named st NL -> attr_of st e dm a ->
  In (k, d') NL -> In (a_id a) (dim_ids d') -> k = qdim e.
Proof.
  intros Hwf (_ & Hsub) (Hdm & Ha) Hin Hi.
  destruct (Hsub k d' Hin) as (dm2 & Hdm2 & Hinc & _).
  destruct (list_eq_dec N.eq_dec k (qdim e)) as [E|Hne]; [exact E|exfalso].
  eapply (ids_disjoint st k dm2 (qdim e) dm (a_id a)); try eassumption.
  - apply Hinc. exact Hi.
  - rewrite dim_ids_ids_of. unfold ids_of. apply in_map_iff. exists (qname e, a). split; [reflexivity|apply alookup_In; exact Ha].
Qed.

Theorem cover_iff_right st U E ps ids :
  wf_structure st -> NoDup (map qdim U) -> NoDup (map qdim E) ->
  complementary_points st U = Ok ps -> ids_of_clause st E = Ok ids ->
  (In (right_of_point ids) (map right_of_point ps) <-> covers st U E).
Proof.
  intros Hwf HndU HndE Hps Hids.
  destruct (complementary_points_spec _ _ _ Hps) as (sem & Hsem & Hin).
  destruct (semantic_space_spec _ _ _ _ Hsem HndU (fun _ _ => eq_refl)) as (S' & -> & Hrel). cbn [app] in *.
  fold (sem_rel st U S') in Hrel.
  pose proof (NL_sub_named _ _ _ Hwf HndU Hrel) as Hsub.
  set (NL := filter (unmentioned S') (dims st) ++ S') in *.
  assert (HDS : map snd (filter (unmentioned S') (dims st)) ++ map snd S' = map snd NL) by (unfold NL; rewrite map_app; reflexivity).
  rewrite HDS in Hin.
  pose proof (sub_named_NoDup _ _ Hwf Hsub) as HndDS.
  apply ids_of_clause_spec in Hids.
  pose proof Hwf as (Hn & Hnames & Hidsnd).
  (* step 1: membership of the sorted right <-> good *)
  assert (Hstep : In (right_of_point ids) (map right_of_point ps) <-> good (map snd NL) ids).
  { rewrite <- (sel_perm_good _ _ HndDS). rewrite in_map_iff. split.
    - intros (p & Hsort & Hp). exists p. split; [apply Hin; exact Hp|]. apply sort_eq_iff_perm. exact Hsort.
    - intros (p & Hs & Hperm). exists p. split; [apply sort_eq_iff_perm; exact Hperm|apply Hin; exact Hs]. }
  rewrite Hstep. clear Hstep.
  (* facts about E's ids *)
  assert (Hfun : forall e i j, id_rel st e i -> id_rel st e j -> i = j).
  { intros e i j (dm1 & a1 & (H1 & H2) & <-) (dm2 & a2 & (H3 & H4) & <-). rewrite H1 in H3. inversion H3; subst. rewrite H2 in H4. inversion H4; subst. reflexivity. }
  split.
  - (* good -> covers *)
    intros (_ & Hall & _) e He.
    destruct (Forall2_In_l _ _ _ _ Hids He) as (i & Hi & (dm & a & Hattr & <-)).
    specialize (Hall _ Hi). unfold all_ids in Hall. apply in_flat_map in Hall. destruct Hall as (d' & Hd' & Hid').
    apply in_map_iff in Hd'. destruct Hd' as ([k d''] & Ek & HinNL). cbn in Ek. subst d''.
    assert (k = qdim e) by (eapply id_in_named; eassumption). subst k.
    unfold NL in HinNL. apply in_app_iff in HinNL. destruct HinNL as [HinF|HinS].
    + left. apply filter_In in HinF. destruct HinF as [_ Hf]. unfold unmentioned in Hf. cbn in Hf.
      apply negb_true_iff, amem_false in Hf. rewrite (sem_rel_fst _ _ _ Hrel) in Hf. exact Hf.
    + right. destruct (Forall2_In_r _ _ _ _ Hrel HinS) as (u & Hu & Hfst & dm2 & Hdm2 & Hr). cbn in Hfst, Hr.
      exists u, dm. destruct Hattr as (Hdm & Ha). rewrite <- Hfst in Hdm2. rewrite Hdm in Hdm2. inversion Hdm2; subst dm2.
      repeat split; [exact Hu|symmetry; exact Hfst|exact Hdm|].
      apply restrict_kept in Hr. destruct Hr as [Hk _]. rewrite dim_ids_ids_of, Hk in Hid'.
      unfold ids_of in Hid'. apply in_map_iff in Hid'. destruct Hid' as ([m a'] & Eid & Hm). cbn in Eid.
      pose proof (kept_incl _ _ _ Hm) as Hm'. 
      assert (Heq : (m, a') = (qname e, a)).
      { apply (NoDup_map_inj_in (fun na => a_id (snd na)) (attrs_of dm)); [| exact Hm' | apply alookup_In; exact Ha | exact Eid].
        change (NoDup (dim_ids dm)). eapply all_ids_dim_NoDup; [exact Hidsnd|]. apply alookup_In in Hdm. apply in_map_iff. exists (qdim e, dm). split; [reflexivity|exact Hdm]. }
      inversion Heq; subst. unfold le_name, names_of. apply in_map_iff. exists (qname e, a). split; [reflexivity|exact Hm].
  - (* covers -> good *)
    intros Hcov. repeat split.
    + (* NoDup ids *)
      clear - Hids HndE Hwf Hfun. induction Hids as [|e i E ids Hei Htl IH]; [constructor|].
      cbn in HndE. inversion HndE as [|? ? He HndE']; subst. constructor; [|apply IH; exact HndE'].
      intros Hin. destruct (Forall2_In_r _ _ _ _ Htl Hin) as (e2 & He2 & Hrel2).
      destruct Hei as (dm1 & a1 & (Hd1 & Ha1) & <-). destruct Hrel2 as (dm2 & a2 & (Hd2 & Ha2) & Eid).
      assert (qdim e <> qdim e2). { intros Eq. apply He. rewrite Eq. apply in_map. exact He2. }
      eapply (ids_disjoint st (qdim e) dm1 (qdim e2) dm2 (a_id a1)); try eassumption.
      * rewrite dim_ids_ids_of. unfold ids_of. apply in_map_iff. exists (qname e, a1). split; [reflexivity|apply alookup_In; exact Ha1].
      * rewrite <- Eid. rewrite dim_ids_ids_of. unfold ids_of. apply in_map_iff. exists (qname e2, a2). split; [reflexivity|apply alookup_In; exact Ha2].
    + (* every id is available *)
      intros i Hi. destruct (Forall2_In_r _ _ _ _ Hids Hi) as (e & He & (dm & a & (Hdm & Ha) & <-)).
      unfold all_ids. apply in_flat_map.
      destruct (Hcov e He) as [Hun|(u & dm2 & Hu & Hq & Hdm2 & Hle)].
      * exists dm. split.
        -- apply in_map_iff. exists (qdim e, dm). split; [reflexivity|]. unfold NL. apply in_app_iff. left. apply filter_In.
           split; [apply alookup_In; exact Hdm|]. unfold unmentioned. cbn. apply negb_true_iff, amem_false.
           rewrite (sem_rel_fst _ _ _ Hrel). exact Hun.
        -- rewrite dim_ids_ids_of. unfold ids_of. apply in_map_iff. exists (qname e, a). split; [reflexivity|apply alookup_In; exact Ha].
      * rewrite Hdm in Hdm2. inversion Hdm2; subst dm2.
        destruct (Forall2_In_l _ _ _ _ Hrel Hu) as ([k d'] & HinS & Hfst & dm3 & Hdm3 & Hr). cbn in Hfst, Hr.
        rewrite Hq, Hdm in Hdm3. inversion Hdm3; subst dm3.
        exists d'. split; [apply in_map_iff; exists (k, d'); split; [reflexivity|unfold NL; apply in_app_iff; right; exact HinS]|].
        apply restrict_kept in Hr. destruct Hr as [Hk _]. rewrite dim_ids_ids_of, Hk.
        unfold le_name, names_of in Hle. apply in_map_iff in Hle. destruct Hle as ([m a'] & Em & Hm). cbn in Em. subst m.
        assert (a' = a).
        { pose proof (kept_incl _ _ _ Hm) as Hm'. apply In_alookup in Hm'; [|eapply Hnames; apply alookup_In; exact Hdm]. rewrite Ha in Hm'. inversion Hm'. reflexivity. }
        subst a'. unfold ids_of. apply in_map_iff. exists (qname e, a). split; [reflexivity|exact Hm].
    + (* at most one id per dimension of the list *)
      intros d' i j Hd' Hi Hj Hid Hjd.
      apply in_map_iff in Hd'. destruct Hd' as ([k d''] & Ek & HinNL). cbn in Ek. subst d''.
      destruct (Forall2_In_r _ _ _ _ Hids Hi) as (e1 & He1 & Hr1). destruct (Forall2_In_r _ _ _ _ Hids Hj) as (e2 & He2 & Hr2).
      pose proof Hr1 as (dm1 & a1 & Hattr1 & E1). pose proof Hr2 as (dm2 & a2 & Hattr2 & E2). subst i j.
      assert (k = qdim e1) by (eapply id_in_named; eassumption).
      assert (k = qdim e2) by (eapply id_in_named; eassumption).
      assert (e1 = e2) by (eapply (NoDup_map_inj_in qdim E); [exact HndE|exact He1|exact He2|congruence]).
      subst e2. eapply Hfun; eassumption.
Qed.
Print Assumptions cover_iff_right.
