(* Allocation-model driver (C14): for each "KIND hex" line runs the instrumented readers of WireAlloc.v (extracted),
   in the mode given on the command line (fixed | pinned), and prints
     ok|err|panic|abort  rest=<bytes left>  maxreq=<largest logged request>  nreq=<number of requests>
   "ok" with rest>0 corresponds to Serializable::deserialize failing on trailing bytes (printed as ok-trailing). *)
open Wire
let rec pos_of_int (i:int) : positive = if i = 1 then XH else if i land 1 = 0 then XO (pos_of_int (i lsr 1)) else XI (pos_of_int (i lsr 1))
let n_of_int i = if i = 0 then N0 else Npos (pos_of_int i)
let rec int_of_pos = function XH -> 1 | XO p -> 2 * int_of_pos p | XI p -> 2 * int_of_pos p + 1
let int_of_n = function N0 -> 0 | Npos p -> int_of_pos p
(* requests can exceed 2^62: print them as floats *)
let rec float_of_pos = function XH -> 1.0 | XO p -> 2.0 *. float_of_pos p | XI p -> 2.0 *. float_of_pos p +. 1.0
let float_of_n = function N0 -> 0.0 | Npos p -> float_of_pos p
let hexval c = match c with '0'..'9' -> Char.code c - 48 | 'a'..'f' -> Char.code c - 87 | _ -> failwith "hex"
let bytes_of_hex s = let n = String.length s / 2 in List.init n (fun i -> n_of_int (hexval s.[2*i] * 16 + hexval s.[2*i+1]))
let show (o, log) =
  let mx = List.fold_left (fun a x -> Stdlib.max a (float_of_n x)) 0.0 log in
  (match o with
   | AOk (_, rest) -> if rest = [] then "ok" else "ok-trailing"
   | AErr -> "err" | APanic -> "panic" | AAbort _ -> "abort")
  ^ Printf.sprintf " maxreq=%.0f nreq=%d" mx (List.length log)
let () =
  let fixed = not (Array.length Sys.argv > 1 && Sys.argv.(1) = "pinned") in
  let sz = if Array.length Sys.argv > 2 && Sys.argv.(2) = "alt" then alt_sizes else default_sizes in
  try while true do
    let line = input_line stdin in
    match String.split_on_char ' ' line with
    | [kind; h] ->
      let bs = bytes_of_hex h in
      let strip (o, l) = ((match o with AOk (_, r) -> AOk ((), r) | AErr -> AErr | APanic -> APanic | AAbort n -> AAbort n), l) in
      print_endline (match kind with
        | "MSK" -> show (strip (ax_msk sz fixed bs))
        | "MPK" -> show (strip (ax_mpk sz fixed bs))
        | "USK" -> show (strip (ax_usk sz fixed bs))
        | "ENC" -> show (strip (ax_xenc sz fixed bs))
        | "HDR" -> show (strip (ax_header sz fixed bs))
        | "ST" -> show (strip (ax_structure fixed bs))
        | _ -> "??")
    | _ -> print_endline "??"
  done with End_of_file -> ()
