(* Data-structure driver: same script language and output format as harness/src/bin/ddriver.rs, computed with the
   extracted Coq model DictModel.v (dict_trace for Dict; rm_* for RevisionMap). Scripts are cut at NEW / MNEW. *)
open Dict
let rec pos_of_int (i:int) : positive = if i = 1 then XH else if i land 1 = 0 then XO (pos_of_int (i lsr 1)) else XI (pos_of_int (i lsr 1))
let n_of_int i = if i = 0 then N0 else Npos (pos_of_int i)
let rec int_of_pos = function XH -> 1 | XO p -> 2 * int_of_pos p | XI p -> 2 * int_of_pos p + 1
let int_of_n = function N0 -> 0 | Npos p -> int_of_pos p
let rec nat_of_int i = if i = 0 then O else S (nat_of_int (i - 1))
let rec int_of_nat = function O -> 0 | S n -> 1 + int_of_nat n
let key (s : string) = List.init (String.length s) (fun i -> n_of_int (Char.code s.[i]))
let skey (k : n list) = String.concat "" (List.map (fun c -> String.make 1 (Char.chr (int_of_n c))) k)
let o = function Some v -> "some:" ^ string_of_int (int_of_n v) | None -> "none"
let chain l = String.concat ";" (List.map (fun v -> string_of_int (int_of_n v)) l)
let flush_dict pending =
  (* pending: reversed list of dict ops since the last NEW *)
  let ops = List.rev pending in
  List.iter (fun e ->
    let r = match e.t_obs with
      | OInsert x -> o x | ORemove x -> o x
      | OUpdate None -> "ok" | OUpdate (Some _) -> "err"
      | OGet x -> o x ^ "/" ^ (match x with Some _ -> "1" | None -> "0") in
    Printf.printf "%s|%d|%s\n" r (int_of_n e.t_len) (String.concat "," (List.map (fun (k, v) -> skey k ^ "=" ^ string_of_int (int_of_n v)) e.t_iter)))
    (dict_trace ops)
let () =
  let pending = ref [] in
  let m = ref rm_new in
  let pm r = let items = List.sort compare (List.map (fun (k, ch) -> skey k ^ "=[" ^ chain ch ^ "]") !m) in
    Printf.printf "%s|%d|%d|%s\n" r (List.length !m) (int_of_nat (rm_count_elements !m)) (String.concat "," items) in
  (try while true do
    let line = input_line stdin in
    match String.split_on_char ' ' line with
    | ["NEW"] -> flush_dict !pending; pending := []; print_endline "ok|0|"
    | ["I"; k; v] -> pending := DInsert (key k, n_of_int (int_of_string v)) :: !pending
    | ["R"; k] -> pending := DRemove (key k) :: !pending
    | ["U"; a; b] -> pending := DUpdateKey (key a, key b) :: !pending
    | ["G"; k] -> pending := DGet (key k) :: !pending
    | ["MNEW"] -> flush_dict !pending; pending := []; m := rm_new; pm "ok"
    | ["MI"; k; v] -> flush_dict !pending; pending := []; m := rm_insert (key k) (n_of_int (int_of_string v)) !m; pm "ok"
    | ["MK"; k; n] -> flush_dict !pending; pending := []; let (m', r) = rm_keep (key k) (nat_of_int (int_of_string n)) !m in m := m'; pm (match r with Some l -> "some:" ^ chain l | None -> "none")
    | ["MR"; k] -> flush_dict !pending; pending := []; let (m', r) = rm_remove (key k) !m in m := m'; pm (match r with Some l -> "some:" ^ chain l | None -> "none")
    | ["ML"; k] -> flush_dict !pending; pending := []; pm (o (rm_get_latest (key k) !m))
    | _ -> flush_dict !pending; pending := []; print_endline "??"
  done with End_of_file -> ());
  flush_dict !pending
