(* History driver for the extracted Coq model: parses one operation per line, calls KeysMachine.step,
   prints the observation and canonical dumps in the same line format as harness/src/bin/kdriver.rs.
   No decision is taken here: every observation comes from the extracted [step]. *)
open Model
let rec pos_of_int (i:int) : positive = if i = 1 then XH else if i land 1 = 0 then XO (pos_of_int (i lsr 1)) else XI (pos_of_int (i lsr 1))
let n_of_int i = if i = 0 then N0 else Npos (pos_of_int i)
let rec int_of_pos = function XH -> 1 | XO p -> 2 * int_of_pos p | XI p -> 2 * int_of_pos p + 1
let int_of_n = function N0 -> 0 | Npos p -> int_of_pos p
let rec nat_of_int i = if i = 0 then O else S (nat_of_int (i - 1))
let hexval c = match c with '0'..'9' -> Char.code c - 48 | 'a'..'f' -> Char.code c - 87 | _ -> failwith "hex"
let bytes_of_hex s = let n = String.length s / 2 in List.init n (fun i -> hexval s.[2*i] * 16 + hexval s.[2*i+1])
let rec decode = function
  | [] -> []
  | b :: t when b < 0x80 -> b :: decode t
  | b :: b1 :: t when b < 0xE0 -> (((b land 0x1F) lsl 6) lor (b1 land 0x3F)) :: decode t
  | b :: b1 :: b2 :: t when b < 0xF0 -> (((b land 0x0F) lsl 12) lor ((b1 land 0x3F) lsl 6) lor (b2 land 0x3F)) :: decode t
  | b :: b1 :: b2 :: b3 :: t -> (((b land 0x07) lsl 18) lor ((b1 land 0x3F) lsl 12) lor ((b2 land 0x3F) lsl 6) lor (b3 land 0x3F)) :: decode t
  | _ -> failwith "utf8"
let encode_cp c =
  if c < 0x80 then [c] else if c < 0x800 then [0xC0 lor (c lsr 6); 0x80 lor (c land 0x3F)]
  else if c < 0x10000 then [0xE0 lor (c lsr 12); 0x80 lor ((c lsr 6) land 0x3F); 0x80 lor (c land 0x3F)]
  else [0xF0 lor (c lsr 18); 0x80 lor ((c lsr 12) land 0x3F); 0x80 lor ((c lsr 6) land 0x3F); 0x80 lor (c land 0x3F)]
let hex_of_str (s : n list) = String.concat "" (List.map (fun b -> Printf.sprintf "%02x" b) (List.concat_map (fun c -> encode_cp (int_of_n c)) s))
let str_of_tok t = List.map n_of_int (decode (bytes_of_hex (String.sub t 1 (String.length t - 1))))
let hex_of_bytes (l : n list) = String.concat "" (List.map (fun b -> Printf.sprintf "%02x" (int_of_n b)) l)
let rhex r = "r" ^ hex_of_bytes (right_bytes r)
let b2i b = if b then 1 else 0
let sec ns s = Printf.sprintf "%d/%s%d" (b2i s.s_hyb) ns (int_of_n s.tok)

let dump_structure (st : structure) =
  let dims = List.map (fun (name, dm) ->
    let (ord, l) = match dm with Anarchy l -> (0, l) | Hierarchy l -> (1, l) in
    let attrs = List.map (fun (an, a) -> Printf.sprintf "%s/%d/%d/%d" (hex_of_str an) (int_of_n a.a_id) (b2i a.a_hyb) (b2i a.a_enc)) l in
    let attrs = if ord = 0 then List.sort compare attrs else attrs in
    Printf.sprintf "%s:%d:%s" (hex_of_str name) ord (String.concat "," attrs)) st.dims in
  Printf.sprintf "n=%d S=%s" (int_of_n st.next_id) (String.concat ";" (List.sort compare dims))

let dump_msk m =
  let items = List.sort compare (List.map (fun (r, ch) -> Printf.sprintf "%s=%s" (rhex r) (String.concat ";" (List.map (fun (f, s) -> Printf.sprintf "%d/%s" (b2i f) (sec "t" s)) ch))) m.m_secrets) in
  let users = List.map (fun i -> Printf.sprintf "i%d" (int_of_n i)) m.m_users in
  Printf.sprintf "MSK l=1 t=2 sg=1 u=%s %s K=%s" (String.concat "," users) (dump_structure m.m_st) (String.concat " " items)
let dump_mpk p =
  Printf.sprintf "MPK l=1 t=2 %s K=%s" (dump_structure p.p_st)
    (String.concat " " (List.sort compare (List.map (fun (r, s) -> Printf.sprintf "%s=%s" (rhex r) (sec "t" s)) p.p_keys)))
let dump_usk u =
  let (m, id) = match u.u_id with Some i -> (2, Printf.sprintf "i%d" (int_of_n i)) | None -> (0, "i-") in
  Printf.sprintf "USK l=1 m=%d p=2 sg=1 id=%s K=%s" m id
    (String.concat " " (List.sort compare (List.map (fun (r, ch) -> Printf.sprintf "%s=%s" (rhex r) (String.concat ";" (List.map (sec "t") ch))) u.u_chains)))
let dump_enc x = Printf.sprintf "ENC l=1 t=2 h=%d n=%d tag=g%d ss=k%d" (b2i x.x_hyb) (List.length x.x_entries) (int_of_n x.x_seed) (int_of_n x.x_seed)

let rec last = function [x] -> x | _ :: t -> last t | [] -> failwith "last"
let nth l i = List.nth l i
(* indices in scripts are taken modulo the number of existing objects (same rule in the Rust driver) *)
let idx s len = let i = int_of_string s in if len = 0 then 10000 else i mod len

let () =
  let fx = if Array.length Sys.argv > 1 && Sys.argv.(1) = "pinned" then pinned else fixed in
  let s = ref init in
  let snaps = ref [] in
  let do_op o = let (s', ob) = step fx !s o in s := s'; ob in
  let obs_str = function ObOk -> "OK" | ObErr -> "ERR" | ObNone -> "NONE" | ObSome _ -> "SOME" | ObNoIdx -> "NOIDX" | ObDead -> "DEAD" in
  let p1 ob = Printf.printf "%s|%s\n" (obs_str ob) (dump_msk !s.st_msk) in
  let p2 ob extra = match ob with
    | ObOk -> Printf.printf "OK|%s|%s\n" (dump_msk !s.st_msk) (extra ())
    | _ -> p1 ob in
  try while true do
    let line = input_line stdin in
    match String.split_on_char ' ' line with
    | ["AP"; p] ->
        let shw = function ROk rs -> "ok:" ^ String.concat "," (List.sort compare (List.map rhex rs)) | RErr -> "err" in
        Printf.printf "AP usk=%s enc=%s|%s\n" (shw (usk_rights fx !s.st_msk.m_st (str_of_tok p))) (shw (enc_rights fx !s.st_msk.m_st (str_of_tok p))) (dump_msk !s.st_msk)
    | "RFX" :: k :: _
    | "RFBAD" :: k :: _ ->
        (* a copy of an issued key with an altered signature: the ideal MAC rejects it; nothing changes (C08/C10/C17) *)
        if !s.st_usks = [] then Printf.printf "NOIDX|%s\n" (dump_msk !s.st_msk)
        else Printf.printf "ERR|%s|%s\n" (dump_msk !s.st_msk) (dump_usk (nth !s.st_usks (idx k (List.length !s.st_usks))))
    | ["HINT"; d; n; h] ->
        (* the hint of an existing attribute changed in place (driver level: the structure is a public field of the master key) *)
        let nm = str_of_tok n in
        let f l = match alookup nm l with Some a -> Some (areplace nm { a_id = a.a_id; a_hyb = (h = "1"); a_enc = a.a_enc } l) | None -> None in
        (match edit_dim (str_of_tok d) (map_dim f) !s.st_msk.m_st with
         | Ok st' -> s := { !s with st_msk = { !s.st_msk with m_st = st' } }; p1 ObOk
         | Err -> p1 ObErr)
    | ["SNAP"] -> snaps := !snaps @ [!s.st_msk]; p1 ObOk
    | ["REST"; k] ->
        if !snaps = [] then Printf.printf "NOIDX|%s\n" (dump_msk !s.st_msk)
        else begin
          (* restoring a backup: the saved master key replaces the current one; everything else is untouched *)
          s := { !s with st_msk = List.nth !snaps (int_of_string k mod List.length !snaps) }; p1 ObOk end
    | ["SETUP"] -> snaps := []; let ob = do_op OSetup in p2 ob (fun () -> dump_mpk (last !s.st_mpks))
    | ["AA"; d] -> p1 (do_op (OAddAnarchy (str_of_tok d)))
    | ["AH"; d] -> p1 (do_op (OAddHierarchy (str_of_tok d)))
    | ["DD"; d] -> p1 (do_op (ODelDim (str_of_tok d)))
    | ["AT"; d; n; h; a] -> p1 (do_op (OAddAttr (str_of_tok d, str_of_tok n, h = "1", (if a = "-" then None else Some (str_of_tok a)))))
    | ["DT"; d; n] -> p1 (do_op (ODelAttr (str_of_tok d, str_of_tok n)))
    | ["RN"; d; n; n'] -> p1 (do_op (ORename (str_of_tok d, str_of_tok n, str_of_tok n')))
    | ["DS"; d; n] -> p1 (do_op (ODisable (str_of_tok d, str_of_tok n)))
    | ["UPD"] -> let ob = do_op OUpdate in p2 ob (fun () -> dump_mpk (last !s.st_mpks))
    | ["MPK"] -> let ob = do_op OMpk in p2 ob (fun () -> dump_mpk (last !s.st_mpks))
    | ["RK"; p] -> let ob = do_op (ORekey (str_of_tok p)) in p2 ob (fun () -> dump_mpk (last !s.st_mpks))
    | ["PR"; p] -> let ob = do_op (OPrune (str_of_tok p)) in p2 ob (fun () -> dump_mpk (last !s.st_mpks))
    | ["KG"; p] -> let ob = do_op (OKeygen (str_of_tok p)) in p2 ob (fun () -> dump_usk (last !s.st_usks))
    | ["RF"; k; keep] ->
        let k = idx k (List.length !s.st_usks) in
        let ob = do_op (ORefresh (nat_of_int k, keep = "1")) in
        (match ob with
         | ObNoIdx -> p1 ob
         | _ -> Printf.printf "%s|%s|%s\n" (obs_str ob) (dump_msk !s.st_msk) (dump_usk (nth !s.st_usks k)))
    | ["EN"; j; p] -> let ob = do_op (OEncaps (nat_of_int (idx j (List.length !s.st_mpks)), str_of_tok p)) in p2 ob (fun () -> dump_enc (last !s.st_encs))
    | ["DE"; k; e] -> p1 (do_op (ODecaps (nat_of_int (idx k (List.length !s.st_usks)), nat_of_int (idx e (List.length !s.st_encs)))))
    | ["RC"; j; e] -> let ob = do_op (ORecaps (nat_of_int (idx j (List.length !s.st_mpks)), nat_of_int (idx e (List.length !s.st_encs)))) in p2 ob (fun () -> dump_enc (last !s.st_encs))
    | ["RT"; "MSK"] -> p1 (do_op (ORoundTrip RefMsk))
    | ["RT"; k; i] ->
        let len = match k with "MPK" -> List.length !s.st_mpks | "USK" -> List.length !s.st_usks | _ -> List.length !s.st_encs in
        let i = idx i len in
        if i >= len then Printf.printf "NOIDX|%s\n" (dump_msk !s.st_msk)
        else p1 (do_op (ORoundTrip (match k with "MPK" -> RefMpk (nat_of_int i) | "USK" -> RefUsk (nat_of_int i) | _ -> RefEnc (nat_of_int i))))
    | _ -> print_endline "??"
  done with End_of_file -> ()
