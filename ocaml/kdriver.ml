open Model
let rec pos_of_int (i:int) : positive = if i = 1 then XH else if i land 1 = 0 then XO (pos_of_int (i lsr 1)) else XI (pos_of_int (i lsr 1))
let n_of_int i = if i = 0 then N0 else Npos (pos_of_int i)
let rec int_of_pos = function XH -> 1 | XO p -> 2 * int_of_pos p | XI p -> 2 * int_of_pos p + 1
let int_of_n = function N0 -> 0 | Npos p -> int_of_pos p
let hexval c = match c with '0'..'9' -> Char.code c - 48 | 'a'..'f' -> Char.code c - 87 | _ -> failwith "hex"
let bytes_of_hex s = let n = String.length s / 2 in List.init n (fun i -> hexval s.[2*i] * 16 + hexval s.[2*i+1])
let rec decode = function
  | [] -> []
  | b :: t when b < 0x80 -> b :: decode t
  | b :: b1 :: t when b < 0xE0 -> (((b land 0x1F) lsl 6) lor (b1 land 0x3F)) :: decode t
  | b :: b1 :: b2 :: t when b < 0xF0 -> (((b land 0x0F) lsl 12) lor ((b1 land 0x3F) lsl 6) lor (b2 land 0x3F)) :: decode t
  | b :: b1 :: b2 :: b3 :: t -> (((b land 0x07) lsl 18) lor ((b1 land 0x3F) lsl 12) lor ((b2 land 0x3F) lsl 6) lor (b3 land 0x3F)) :: decode t
  | _ -> failwith "utf8"
let str_of_tok t = List.map n_of_int (decode (bytes_of_hex (String.sub t 1 (String.length t - 1))))
let hex_of_bytes (l : n list) = String.concat "" (List.map (fun b -> Printf.sprintf "%02x" (int_of_n b)) l)
let rhex r = "r" ^ hex_of_bytes (right_bytes r)
let b2i b = if b then 1 else 0
let sec s = Printf.sprintf "%d/t%d" (b2i s.s_hyb) (int_of_n s.tok)
let dump_msk m =
  let items = List.sort compare (List.map (fun (r, ch) -> Printf.sprintf "%s=[%s]" (rhex r) (String.concat ";" (List.map (fun (f, s) -> Printf.sprintf "%d/%s" (b2i f) (sec s)) ch))) m.m_secrets) in
  Printf.sprintf "MSK u=%d %s" (List.length m.m_users) (String.concat " " items)
let dump_mpk p =
  "MPK " ^ String.concat " " (List.sort compare (List.map (fun (r, s) -> Printf.sprintf "%s=%s" (rhex r) (sec s)) p.p_keys))
let dump_usk u =
  let id = match u.u_id with Some i -> Printf.sprintf "i%d" (int_of_n i) | None -> "none" in
  Printf.sprintf "USK id=%s %s" id (String.concat " " (List.stable_sort (fun a b -> compare (fst a) (fst b)) (List.map (fun (r, ch) -> (rhex r, Printf.sprintf "%s=[%s]" (rhex r) (String.concat ";" (List.map sec ch)))) u.u_chains) |> List.map snd))
let dump_enc x = Printf.sprintf "ENC %d %d" (b2i x.x_hyb) (List.length x.x_entries)
let () =
  let all = Array.length Sys.argv > 1 && Sys.argv.(1) = "fixed" in
  let fx = { fx_ids = all; fx_rev = all; fx_prune = all; fx_rekey_flag = all; fx_refresh = all; fx_update = all; fx_recaps = all; fx_parse = all } in
  let m = ref { m_users = []; m_secrets = []; m_st = empty_structure } in
  let ctr = ref N0 in
  let mpks = ref [||] and usks = ref [||] and encs = ref [||] in
  let push a x = a := Array.append !a [|x|] in
  let edit r = match r with Ok s -> m := { !m with m_st = s }; print_endline "OK" | _ -> print_endline "ERR" in
  let newmpk () = let p = mk_mpk !m in push mpks p; print_endline ("OK " ^ dump_mpk p ^ " | " ^ dump_msk !m) in
  try while true do
    let line = input_line stdin in
    match String.split_on_char ' ' line with
    | ["SETUP"] ->
        m := { m_users = []; m_secrets = []; m_st = empty_structure }; ctr := N0; mpks := [||]; usks := [||]; encs := [||];
        let ((_, m'), c) = update_msk fx !m !ctr in m := m'; ctr := c; newmpk ()
    | ["AA"; d] -> edit (add_anarchy (str_of_tok d) !m.m_st)
    | ["AH"; d] -> edit (add_hierarchy (str_of_tok d) !m.m_st)
    | ["DD"; d] -> edit (del_dimension (str_of_tok d) !m.m_st)
    | ["AT"; d; n; h; a] -> edit (add_attribute fx.fx_ids (str_of_tok d) (str_of_tok n) (h = "1") (if a = "-" then None else Some (str_of_tok a)) !m.m_st)
    | ["DT"; d; n] -> edit (del_attribute (str_of_tok d) (str_of_tok n) !m.m_st)
    | ["RN"; d; n; n'] -> edit (rename_attribute (str_of_tok d) (str_of_tok n) (str_of_tok n') !m.m_st)
    | ["DS"; d; n] -> edit (disable_attribute (str_of_tok d) (str_of_tok n) !m.m_st)
    | ["UPD"] ->
        let ((r, m'), c) = update_msk fx !m !ctr in m := m'; ctr := c;
        (match r with ROk _ -> newmpk () | RErr -> print_endline ("ERR " ^ dump_msk !m))
    | ["MPK"] -> newmpk ()
    | ["RK"; p] ->
        (match usk_rights fx !m.m_st (str_of_tok p) with
         | RErr -> print_endline ("ERR " ^ dump_msk !m)
         | ROk rs -> let (r, c) = rekey fx !m rs !ctr in ctr := c;
             (match r with ROk m' -> m := m'; newmpk () | RErr -> print_endline ("ERR " ^ dump_msk !m)))
    | ["PR"; p] ->
        (match usk_rights fx !m.m_st (str_of_tok p) with
         | RErr -> print_endline ("ERR " ^ dump_msk !m)
         | ROk rs -> m := prune !m rs; newmpk ())
    | ["KG"; p] ->
        (match usk_rights fx !m.m_st (str_of_tok p) with
         | RErr -> print_endline ("ERR " ^ dump_msk !m)
         | ROk rs -> let (r, c) = keygen !m rs !ctr in ctr := c;
             (match r with ROk (m', u) -> m := m'; push usks u; print_endline ("OK " ^ dump_usk u ^ " | " ^ dump_msk !m) | RErr -> print_endline ("ERR " ^ dump_msk !m)))
    | ["RF"; k; keep] ->
        let k = int_of_string k in
        if k >= Array.length !usks then print_endline "NOIDX" else begin
          let (r, u') = refresh fx !m !usks.(k) (keep = "1") in
          !usks.(k) <- u';
          print_endline ((match r with ROk _ -> "OK " | RErr -> "ERR ") ^ dump_usk u' ^ " | " ^ dump_msk !m) end
    | ["EN"; j; p] ->
        let j = int_of_string j in
        if j >= Array.length !mpks then print_endline "NOIDX" else
        (match enc_rights fx !mpks.(j).p_st (str_of_tok p) with
         | RErr -> print_endline "ERR"
         | ROk rs -> let (r, c) = encaps_rights !mpks.(j) rs !ctr in ctr := c;
             (match r with ROk x -> push encs x; print_endline ("OK " ^ dump_enc x) | RErr -> print_endline "ERR"))
    | ["DE"; k; e] ->
        let k = int_of_string k and e = int_of_string e in
        if k >= Array.length !usks || e >= Array.length !encs then print_endline "NOIDX"
        else if !usks.(k).u_chains = [] then print_endline "DEAD"
        else (match decaps fx !usks.(k) !encs.(e) with Some _ -> print_endline "SOME" | None -> print_endline "NONE")
    | ["RC"; j; e] ->
        let j = int_of_string j and e = int_of_string e in
        if j >= Array.length !mpks || e >= Array.length !encs then print_endline "NOIDX" else
        let (r, c) = recaps fx !m !mpks.(j) !encs.(e) !ctr in ctr := c;
        (match r with ROk x -> push encs x; print_endline ("OK " ^ dump_enc x) | RErr -> print_endline "ERR")
    | _ -> print_endline "??"
  done with End_of_file -> ()
