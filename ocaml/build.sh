#!/bin/sh
# Builds the extracted model and the OCaml drivers. model.ml / wire.ml are written by coq/Extract.v.
set -e
cd "$(dirname "$0")"
for d in driver kdriver; do
  if [ ! -x $d ] || [ model.ml -nt $d ] || [ $d.ml -nt $d ]; then
    ocamlfind ocamlopt -O2 -w -a -package str model.mli model.ml $d.ml -o $d 2>/dev/null || ocamlfind ocamlopt -w -a -package str model.mli model.ml $d.ml -o $d
  fi
done
if [ ! -x ddriver ] || [ dict.ml -nt ddriver ] || [ ddriver.ml -nt ddriver ]; then
  ocamlfind ocamlopt -w -a -package str dict.mli dict.ml ddriver.ml -o ddriver
fi
for d in wdriver mdriver adriver; do
  if [ -f $d.ml ] && { [ ! -x $d ] || [ wire.ml -nt $d ] || [ $d.ml -nt $d ]; }; then
    ocamlfind ocamlopt -w -a -package str wire.mli wire.ml $d.ml -o $d
  fi
done
