open Model
let rec pos_of_int (i:int) : positive = if i = 1 then XH else if i land 1 = 0 then XO (pos_of_int (i lsr 1)) else XI (pos_of_int (i lsr 1))
let n_of_int i = if i = 0 then N0 else Npos (pos_of_int i)
let rec int_of_pos = function XH -> 1 | XO p -> 2 * int_of_pos p | XI p -> 2 * int_of_pos p + 1
let int_of_n = function N0 -> 0 | Npos p -> int_of_pos p
let hexval c = match c with '0'..'9' -> Char.code c - 48 | 'a'..'f' -> Char.code c - 87 | _ -> failwith "hex"
let bytes_of_hex s = let n = String.length s / 2 in List.init n (fun i -> hexval s.[2*i] * 16 + hexval s.[2*i+1])
(* utf8 decode (input is valid utf8) *)
let rec decode = function
  | [] -> []
  | b :: t when b < 0x80 -> b :: decode t
  | b :: b1 :: t when b < 0xE0 -> (((b land 0x1F) lsl 6) lor (b1 land 0x3F)) :: decode t
  | b :: b1 :: b2 :: t when b < 0xF0 -> (((b land 0x0F) lsl 12) lor ((b1 land 0x3F) lsl 6) lor (b2 land 0x3F)) :: decode t
  | b :: b1 :: b2 :: b3 :: t -> (((b land 0x07) lsl 18) lor ((b1 land 0x3F) lsl 12) lor ((b2 land 0x3F) lsl 6) lor (b3 land 0x3F)) :: decode t
  | _ -> failwith "utf8"
let encode_cp c =
  if c < 0x80 then [c] else if c < 0x800 then [0xC0 lor (c lsr 6); 0x80 lor (c land 0x3F)]
  else if c < 0x10000 then [0xE0 lor (c lsr 12); 0x80 lor ((c lsr 6) land 0x3F); 0x80 lor (c land 0x3F)]
  else [0xF0 lor (c lsr 18); 0x80 lor ((c lsr 12) land 0x3F); 0x80 lor ((c lsr 6) land 0x3F); 0x80 lor (c land 0x3F)]
let hex_of_str (s : n list) = String.concat "" (List.map (fun b -> Printf.sprintf "%02x" b) (List.concat_map (fun c -> encode_cp (int_of_n c)) s))
let () =
  let fixed = Array.length Sys.argv > 1 && Sys.argv.(1) = "fixed" in
  try while true do
    let line = input_line stdin in
    let s = List.map n_of_int (decode (bytes_of_hex line)) in
    (match parse_dnf fixed s with
     | Panic -> print_string "PANIC"
     | Err -> print_string "ERR"
     | Hang -> print_string "HANG"
     | Ok d -> print_string "OK ";
        print_string (String.concat ";" (List.map (fun cl -> String.concat "," (List.map (fun a -> hex_of_str a.qdim ^ ":" ^ hex_of_str a.qname) cl)) d)));
    print_newline ()
  done with End_of_file -> ()
