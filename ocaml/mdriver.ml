(* MAC-stream driver (C08): for each line "<issued usk hex> <tampered usk hex>", parses both with the extracted Coq
   reader r_usk, builds the bodies with MacStream.mk_body and prints
     P<parsed?> E<bodies equal?> S<mac_stream equal?> R<reframing_of issued tampered?> I<ids equal?> G<signatures equal?>
   usage: mdriver [default|alt] *)
open Wire
let rec pos_of_int (i:int) : positive = if i = 1 then XH else if i land 1 = 0 then XO (pos_of_int (i lsr 1)) else XI (pos_of_int (i lsr 1))
let n_of_int i = if i = 0 then N0 else Npos (pos_of_int i)
let hexval c = match c with '0'..'9' -> Char.code c - 48 | 'a'..'f' -> Char.code c - 87 | _ -> failwith "hex"
let bytes_of_hex s = let n = String.length s / 2 in List.init n (fun i -> n_of_int (hexval s.[2*i] * 16 + hexval s.[2*i+1]))
let b2i b = if b then 1 else 0
let body (u : w_usk) = mk_body u.wu_id (List.map (fun (r, ch) -> (r, List.map (fun k -> ((k.wk_hyb, k.wk_sk), k.wk_dk)) ch)) u.wu_chains)
let () =
  let sz = if Array.length Sys.argv > 1 && Sys.argv.(1) = "alt" then alt_sizes else default_sizes in
  try while true do
    let line = input_line stdin in
    match String.split_on_char ' ' line with
    | [a; b] ->
      (match whole (r_usk sz (bytes_of_hex a)), whole (r_usk sz (bytes_of_hex b)) with
       | Some ua, Some ub ->
         let ba = body ua and bb = body ub in
         Printf.printf "P1 E%d S%d R%d I%d G%d\n" (b2i (ubody_eqb ba bb)) (b2i (mac_stream ba = mac_stream bb)) (b2i (reframing_of ba bb))
           (b2i (ua.wu_id = ub.wu_id)) (b2i (ua.wu_sig = ub.wu_sig))
       | _, _ -> print_endline "P0")
    | _ -> print_endline "??"
  done with End_of_file -> ()
