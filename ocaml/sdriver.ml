open Model
let rec pos_of_int (i:int) : positive = if i = 1 then XH else if i land 1 = 0 then XO (pos_of_int (i lsr 1)) else XI (pos_of_int (i lsr 1))
let n_of_int i = if i = 0 then N0 else Npos (pos_of_int i)
let rec int_of_pos = function XH -> 1 | XO p -> 2 * int_of_pos p | XI p -> 2 * int_of_pos p + 1
let int_of_n = function N0 -> 0 | Npos p -> int_of_pos p
let hexval c = match c with '0'..'9' -> Char.code c - 48 | 'a'..'f' -> Char.code c - 87 | _ -> failwith "hex"
let bytes_of_hex s = let n = String.length s / 2 in List.init n (fun i -> hexval s.[2*i] * 16 + hexval s.[2*i+1])
let rec decode = function
  | [] -> []
  | b :: t when b < 0x80 -> b :: decode t
  | b :: b1 :: t when b < 0xE0 -> (((b land 0x1F) lsl 6) lor (b1 land 0x3F)) :: decode t
  | b :: b1 :: b2 :: t when b < 0xF0 -> (((b land 0x0F) lsl 12) lor ((b1 land 0x3F) lsl 6) lor (b2 land 0x3F)) :: decode t
  | b :: b1 :: b2 :: b3 :: t -> (((b land 0x07) lsl 18) lor ((b1 land 0x3F) lsl 12) lor ((b2 land 0x3F) lsl 6) lor (b3 land 0x3F)) :: decode t
  | _ -> failwith "utf8"
let encode_cp c =
  if c < 0x80 then [c] else if c < 0x800 then [0xC0 lor (c lsr 6); 0x80 lor (c land 0x3F)]
  else if c < 0x10000 then [0xE0 lor (c lsr 12); 0x80 lor ((c lsr 6) land 0x3F); 0x80 lor (c land 0x3F)]
  else [0xF0 lor (c lsr 18); 0x80 lor ((c lsr 12) land 0x3F); 0x80 lor ((c lsr 6) land 0x3F); 0x80 lor (c land 0x3F)]
let hex_of_str (s : n list) = String.concat "" (List.map (fun b -> Printf.sprintf "%02x" b) (List.concat_map (fun c -> encode_cp (int_of_n c)) s))
let str_of_tok t = (* "x<hex>" *) List.map n_of_int (decode (bytes_of_hex (String.sub t 1 (String.length t - 1))))
let hex_of_bytes (l : n list) = String.concat "" (List.map (fun b -> Printf.sprintf "%02x" (int_of_n b)) l)
let dump st =
  let ds = List.sort compare (List.map (fun (name, d) ->
    let kind, l = match d with Anarchy l -> "A", l | Hierarchy l -> "H", l in
    let items = List.map (fun (n, a) -> Printf.sprintf "%s=%d/%d/%d" (hex_of_str n) (int_of_n a.a_id) (if a.a_hyb then 1 else 0) (if a.a_enc then 1 else 0)) l in
    let items = if kind = "A" then List.sort compare items else items in
    Printf.sprintf "%s:%s:[%s]" (hex_of_str name) kind (String.concat ";" items)) st.dims) in
  String.concat " " ds
let () =
  let fixed = Array.length Sys.argv > 1 && Sys.argv.(1) = "fixed" in
  let st = ref empty_structure in
  let apply r = match r with Ok s -> st := s; print_endline "OK" | Err -> print_endline "ERR" | Panic -> print_endline "PANIC" | Hang -> print_endline "HANG" in
  let rights f pol =
    match parse fixed pol with
    | Panic -> print_endline "PANIC" | Hang -> print_endline "HANG" | Err -> print_endline "PERR"
    | Ok p -> (match f !st p with
        | Ok rs -> print_endline ("OK " ^ String.concat "," (List.sort compare (List.map (fun r -> "r" ^ hex_of_bytes (right_bytes r)) rs)))
        | _ -> print_endline "ERR") in
  try while true do
    let line = input_line stdin in
    match String.split_on_char ' ' line with
    | ["NEW"] -> st := empty_structure; print_endline "OK"
    | ["AA"; d] -> apply (add_anarchy (str_of_tok d) !st)
    | ["AH"; d] -> apply (add_hierarchy (str_of_tok d) !st)
    | ["DD"; d] -> apply (del_dimension (str_of_tok d) !st)
    | ["AT"; d; n; h; a] -> apply (add_attribute fixed (str_of_tok d) (str_of_tok n) (h = "1") (if a = "-" then None else Some (str_of_tok a)) !st)
    | ["DT"; d; n] -> apply (del_attribute (str_of_tok d) (str_of_tok n) !st)
    | ["RN"; d; n; n'] -> apply (rename_attribute (str_of_tok d) (str_of_tok n) (str_of_tok n') !st)
    | ["DS"; d; n] -> apply (disable_attribute (str_of_tok d) (str_of_tok n) !st)
    | ["UR"; p] -> rights complementary_rights (str_of_tok p)
    | ["ER"; p] -> rights associated_rights (str_of_tok p)
    | ["ST"] -> print_endline ("ST " ^ dump !st)
    | ["OM"] -> print_endline ("OK " ^ String.concat "," (List.sort compare (List.map (fun (r, (h, e)) -> Printf.sprintf "r%s/%d/%d" (hex_of_bytes (right_bytes r)) (if h then 1 else 0) (if e then 1 else 0)) (omega !st))))
    | _ -> print_endline "??"
  done with End_of_file -> ()
