open Wire
let rec pos_of_int (i:int) : positive = if i = 1 then XH else if i land 1 = 0 then XO (pos_of_int (i lsr 1)) else XI (pos_of_int (i lsr 1))
let n_of_int i = if i = 0 then N0 else Npos (pos_of_int i)
let rec int_of_pos = function XH -> 1 | XO p -> 2 * int_of_pos p | XI p -> 2 * int_of_pos p + 1
let int_of_n = function N0 -> 0 | Npos p -> int_of_pos p
let hexval c = match c with '0'..'9' -> Char.code c - 48 | 'a'..'f' -> Char.code c - 87 | _ -> failwith "hex"
let bytes_of_hex s = let n = String.length s / 2 in List.init n (fun i -> n_of_int (hexval s.[2*i] * 16 + hexval s.[2*i+1]))
let hexb (l : n list) = String.concat "" (List.map (fun b -> Printf.sprintf "%02x" (int_of_n b)) l)
let rec firstn k l = if k = 0 then [] else match l with [] -> [] | x :: t -> x :: firstn (k-1) t
let b2i b = if b then 1 else 0
let sz = default_sizes
let rsk k = Printf.sprintf "%d/s%s" (b2i k.wk_hyb) (hexb (firstn 8 k.wk_sk))
let () =
  try while true do
    let line = input_line stdin in
    match String.split_on_char ' ' line with
    | ["MSK"; h] -> (match whole (r_msk sz (bytes_of_hex h)) with
        | None -> print_endline "MSK PARSE-ERROR"
        | Some m ->
          let items = List.sort compare (List.map (fun (r, ch) -> Printf.sprintf "r%s=[%s]" (hexb r) (String.concat ";" (List.map (fun (f, k) -> Printf.sprintf "%d/%s" (b2i f) (rsk k)) ch))) m.wm_secrets) in
          Printf.printf "MSK u=%d %s\n" (List.length m.wm_users) (String.concat " " items))
    | ["MPK"; h] -> (match whole (r_mpk sz (bytes_of_hex h)) with
        | None -> print_endline "MPK PARSE-ERROR"
        | Some p -> Printf.printf "MPK %s\n" (String.concat " " (List.sort compare (List.map (fun (r, k) -> Printf.sprintf "r%s=%d/p%s" (hexb r) (b2i k.wp_hyb) (hexb (firstn 8 k.wp_h))) p.wq_keys))))
    | ["USK"; h] -> (match whole (r_usk sz (bytes_of_hex h)) with
        | None -> print_endline "USK PARSE-ERROR"
        | Some u ->
          let id = match u.wu_id with [] -> "none" | m :: _ -> "i" ^ hexb (firstn 8 m) in
          let items = List.stable_sort (fun a b -> compare (fst a) (fst b)) (List.map (fun (r, ch) -> ("r" ^ hexb r, Printf.sprintf "r%s=[%s]" (hexb r) (String.concat ";" (List.map rsk ch)))) u.wu_chains) in
          Printf.printf "USK id=%s %s\n" id (String.concat " " (List.map snd items)))
    | ["ENC"; h] -> (match whole (r_xenc sz (bytes_of_hex h)) with
        | None -> print_endline "ENC PARSE-ERROR"
        | Some x -> Printf.printf "ENC %d %d\n" (b2i x.wx_hyb) (List.length x.wx_entries))
    | _ -> print_endline "??"
  done with End_of_file -> ()
