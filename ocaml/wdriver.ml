(* Wire-model driver: for each "KIND hex" line, parses the bytes with the extracted Coq readers (Wire.v) and prints
   the same canonical dump as harness/src/common.rs, followed by
     rt=1  iff the extracted Coq WRITER applied to the parsed value gives back exactly the bytes
     ln=1  iff the extracted Coq LENGTH function equals the number of bytes
   usage: wdriver [default|alt] *)
open Wire
let rec pos_of_int (i:int) : positive = if i = 1 then XH else if i land 1 = 0 then XO (pos_of_int (i lsr 1)) else XI (pos_of_int (i lsr 1))
let n_of_int i = if i = 0 then N0 else Npos (pos_of_int i)
let rec int_of_pos = function XH -> 1 | XO p -> 2 * int_of_pos p | XI p -> 2 * int_of_pos p + 1
let int_of_n = function N0 -> 0 | Npos p -> int_of_pos p
let rec int_of_nat = function O -> 0 | S n -> 1 + int_of_nat n
let hexval c = match c with '0'..'9' -> Char.code c - 48 | 'a'..'f' -> Char.code c - 87 | _ -> failwith "hex"
let bytes_of_hex s = let n = String.length s / 2 in List.init n (fun i -> n_of_int (hexval s.[2*i] * 16 + hexval s.[2*i+1]))
let hexb (l : n list) = let b = Buffer.create 64 in List.iter (fun x -> Buffer.add_string b (Printf.sprintf "%02x" (int_of_n x))) l; Buffer.contents b
let rec firstn k l = if k = 0 then [] else match l with [] -> [] | x :: t -> x :: firstn (k-1) t
let b2i b = if b then 1 else 0
let t8 ns b = ns ^ hexb (firstn 8 b)
let rsk k = Printf.sprintf "%d/%s" (b2i k.wk_hyb) (t8 "s" k.wk_sk)

let dump_structure (st : w_structure) =
  let dims = List.map (fun (name, (ord, l)) ->
    let attrs = List.map (fun (an, a) -> Printf.sprintf "%s/%d/%d/%d" (hexb an) (int_of_n a.wa_id) (b2i a.wa_hyb) (b2i a.wa_enc)) l in
    let attrs = if not ord then List.sort compare attrs else attrs in
    Printf.sprintf "%s:%d:%s" (hexb name) (b2i ord) (String.concat "," attrs)) st.ws_dims in
  Printf.sprintf "n=%s S=%s" (match st.ws_next with Some n -> string_of_int (int_of_n n) | None -> "-") (String.concat ";" (List.sort compare dims))

let () =
  let sz = if Array.length Sys.argv > 1 && Sys.argv.(1) = "alt" then alt_sizes else default_sizes in
  try while true do
    let line = input_line stdin in
    match String.split_on_char ' ' line with
    | [kind; h] ->
      let bs = bytes_of_hex h in
      let n = List.length bs in
      (match kind with
       | "MSK" -> (match whole (r_msk sz bs) with
          | None -> print_endline "MSK PARSE-ERROR"
          | Some m ->
            let users = List.sort compare (List.map (fun id -> match id with [] -> "i-" | mk :: _ -> t8 "i" mk) m.wm_users) in
            let items = List.sort compare (List.map (fun (r, ch) -> Printf.sprintf "r%s=%s" (hexb r) (String.concat ";" (List.map (fun (f, k) -> Printf.sprintf "%d/%s" (b2i f) (rsk k)) ch))) m.wm_secrets) in
            Printf.printf "MSK l=%d t=%d sg=%d u=%s %s K=%s|rt=%d|ln=%d\n" 1 (List.length m.wm_tracers) (match m.wm_sign with Some _ -> 1 | None -> 0)
              (String.concat "," users) (dump_structure m.wm_st) (String.concat " " items)
              (b2i (wr_msk m = bs)) (b2i (int_of_nat (len_msk sz m) = n)))
       | "MPK" -> (match whole (r_mpk sz bs) with
          | None -> print_endline "MPK PARSE-ERROR"
          | Some p ->
            let items = List.sort compare (List.map (fun (r, k) -> Printf.sprintf "r%s=%d/%s" (hexb r) (b2i k.wp_hyb) (t8 "p" k.wp_h)) p.wq_keys) in
            Printf.printf "MPK l=1 t=%d %s K=%s|rt=%d|ln=%d\n" (List.length p.wq_tpk) (dump_structure p.wq_st) (String.concat " " items)
              (b2i (wr_mpk p = bs)) (b2i (int_of_nat (len_mpk sz p) = n)))
       | "USK" -> (match whole (r_usk sz bs) with
          | None -> print_endline "USK PARSE-ERROR"
          | Some u ->
            let id = match u.wu_id with [] -> "i-" | m :: _ -> t8 "i" m in
            let items = List.sort compare (List.map (fun (r, ch) -> Printf.sprintf "r%s=%s" (hexb r) (String.concat ";" (List.map rsk ch))) u.wu_chains) in
            Printf.printf "USK l=1 m=%d p=%d sg=%d id=%s K=%s|rt=%d|ln=%d\n" (List.length u.wu_id) (List.length u.wu_ps) (match u.wu_sig with Some _ -> 1 | None -> 0) id
              (String.concat " " items) (b2i (wr_usk u = bs)) (b2i (int_of_nat (len_usk sz u) = n)))
       | "ENC" -> (match whole (r_xenc sz bs) with
          | None -> print_endline "ENC PARSE-ERROR"
          | Some x -> Printf.printf "ENC l=1 t=%d h=%d n=%d tag=%s|rt=%d|ln=%d\n" (List.length x.wx_c) (b2i x.wx_hyb) (List.length x.wx_entries) (t8 "g" x.wx_tag)
              (b2i (wr_xenc x = bs)) (b2i (int_of_nat (len_xenc sz x) = n)))
       | "HDR" -> (match whole (r_header sz bs) with
          | None -> print_endline "HDR PARSE-ERROR"
          | Some h -> Printf.printf "HDR l=1 md=%d|rt=%d|ln=%d\n" (match h.wh_meta with Some m -> List.length m | None -> -1)
              (b2i (wr_header h = bs)) (b2i (int_of_nat (len_header sz h) = n)))
       | _ -> print_endline "??")
    | _ -> print_endline "??"
  done with End_of_file -> ()
