#!/bin/sh
# Offline set-up after a fresh restore: Coq development (full .vo build), extraction + OCaml drivers,
# harness crate in both feature configurations (built against /repo's working tree).
set -e
cd "$(dirname "$0")"
export CARGO_NET_OFFLINE=true
mkdir -p evidence replays .tmp
( cd coq && coq_makefile -f _CoqProject -o Makefile >/dev/null && timeout 3000 make -j16 2>&1 | grep -v '^Closed under\|^COQC\|^COQDEP' | tail -20 )
( cd ocaml && ./build.sh )
REPO=${CC_REPO:-/repo}
( cd harness && sed -i "s#path = \"[^\"]*\"#path = \"$REPO\"#" Cargo.toml && cp $REPO/Cargo.lock Cargo.lock 2>/dev/null || true
  RUSTFLAGS="--cfg cosmian_cover_crypt_verif" cargo build --release --offline --target-dir target 2>&1 | tail -2
  RUSTFLAGS="--cfg cosmian_cover_crypt_verif" cargo build --release --offline --target-dir target-alt --no-default-features --features cfg-alt 2>&1 | tail -2 )
echo setup done
