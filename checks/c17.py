"""C17 - every issued user key is registered and satisfies the tracing relation."""
import histcheck as hc, profiles, dumps, vf, os, subprocess

def reg_oracle(scr, out):
    hits = []; ids = {}
    nusk = 0
    for ln, (l, o) in enumerate(zip(scr, out)):
        parts = o.split('|'); f = l.split(' ')
        if f[0] == 'SETUP': ids = {}; nusk = 0
        if len(parts) >= 3 and parts[2].startswith('USK') and parts[0] == 'ERR' and f[0] in ('RF', 'RFBAD'):
            # a refused refresh: the issued key still carries its identifier (as many markers and points as the master key has tracers)
            _, mf, _ = dumps.fields(parts[1]); _, uf, _ = dumps.fields(parts[2])
            if uf.get('m') != mf.get('t') or uf.get('p') != mf.get('t'): hits.append((ln, f'after a refused refresh the issued user key has {uf.get("m")} markers / {uf.get("p")} tracing points, the master key has {mf.get("t")} tracers'))
        if len(parts) >= 3 and parts[2].startswith('USK') and parts[0] == 'OK':
            _, mf, _ = dumps.fields(parts[1]); _, uf, _ = dumps.fields(parts[2])
            users = set(mf.get('u', '').split(',')) - {''}
            uid = uf.get('id')
            if uid not in users: hits.append((ln, f'user key identifier {uid} is not recorded in the master key'))
            if uf.get('m') != mf.get('t') or uf.get('p') != mf.get('t'): hits.append((ln, f'user key has {uf.get("m")} markers / {uf.get("p")} tracing points, master key has {mf.get("t")} tracers'))
            if uf.get('sg') != '1': hits.append((ln, 'issued user key carries no signature'))
            k = nusk if f[0] == 'KG' else None
            if f[0] == 'KG':
                if uid in ids.values(): hits.append((ln, f'two user keys share the identifier {uid}'))
                ids[nusk] = uid; nusk += 1
    return hits

def run(ctx):
    if not hc.ensure_builds(ctx, ('default', 'alt'), optional=('alt',)): hc.finish(ctx, 'builds failed')
    n = 400 if ctx.quick() else 8000
    H, impl, model, dis, hits = hc.run_profile(ctx, profiles.C17, n, extra_oracle=reg_oracle, claims=lambda op, a, b: op in ('KG', 'RF', 'RFBAD'))
    import objcheck
    objcheck.tracing(ctx, profiles.C17, 40 if ctx.quick() else 400)
    if 'alt' not in ctx.unbuilt: objcheck.tracing(ctx, profiles.C17, 15 if ctx.quick() else 150, 'alt')     # p-256 / ML-KEM-768 build, arithmetic by the p256 crate
    hc.vm_crosscheck(ctx, H, model)
    hc.finish(ctx, f'{n} random histories of key generations, refreshes and master-key round trips: identifier recorded, distinct, marker/point counts; on a subset the serialized keys are parsed and the '
              'tracing relation sum a_i t_i = s, P_i = t_i G, equality of tracing points in user and public keys, and pk = sk (s G) are checked with real scalar arithmetic')

replay = hc.replay
