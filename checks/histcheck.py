"""Common flow of the history-shaped checks (C01-C06, C09-C11, C13, C17, C18)."""
import json, os, collections, re
import vf, hist, spec


def script_to_coq(script):
    """operation lines -> Gallina list of KeysMachine.op (strings as code-point lists); None if an op has no Coq form"""
    def s(t):
        txt = bytes.fromhex(t[1:]).decode()
        return '[' + ';'.join(str(ord(c)) for c in txt) + ']%N' if txt else '[]'
    out = []
    nm = {'MPK': 0, 'USK': 0, 'ENC': 0}
    for l in script:
        f = l.split(' ')
        o = f[0]
        if o == 'SETUP': out.append('OSetup')
        elif o == 'AA': out.append(f'OAddAnarchy {s(f[1])}')
        elif o == 'AH': out.append(f'OAddHierarchy {s(f[1])}')
        elif o == 'DD': out.append(f'ODelDim {s(f[1])}')
        elif o == 'AT': out.append(f"OAddAttr {s(f[1])} {s(f[2])} {'true' if f[3]=='1' else 'false'} {'None' if f[4]=='-' else '(Some '+s(f[4])+')'}")
        elif o == 'DT': out.append(f'ODelAttr {s(f[1])} {s(f[2])}')
        elif o == 'RN': out.append(f'ORename {s(f[1])} {s(f[2])} {s(f[3])}')
        elif o == 'DS': out.append(f'ODisable {s(f[1])} {s(f[2])}')
        elif o == 'UPD': out.append('OUpdate')
        elif o == 'MPK': out.append('OMpk')
        elif o == 'RK': out.append(f'ORekey {s(f[1])}')
        elif o == 'PR': out.append(f'OPrune {s(f[1])}')
        elif o == 'KG': out.append(f'OKeygen {s(f[1])}')
        else: return None      # index-taking ops use the modulo convention of the drivers: not replayed in Coq
    return '[' + '; '.join(out) + ']'


def vm_crosscheck(ctx, histories, model):
    """Evaluates prefixes (index-free operations only) of a few scripts inside Coq (vm_compute on KeysMachine.run)
    and compares the observations with the extracted OCaml model's."""
    picked = []
    for h, scr in enumerate(histories):
        pre = []
        for l in scr:
            if l.split(' ')[0] in ('RF', 'EN', 'DE', 'RC', 'RT', 'SNAP', 'REST', 'RFBAD', 'RFX', 'AP', 'HINT'): break
            pre.append(l)
        if len(pre) >= 6: picked.append((h, pre))
        if len(picked) >= 4: break
    if not picked: return
    body = 'From Coq Require Import List NArith.\nFrom CC Require Import Policy Structure Keys KeysMachine.\nImport ListNotations.\n'
    body += 'Definition oc (o : obs) : N := match o with ObOk => 1 | ObErr => 2 | ObNone => 3 | ObSome _ => 4 | ObNoIdx => 5 | ObDead => 6 end.\n'
    for i, (h, pre) in enumerate(picked):
        body += f'Eval vm_compute in map oc (snd (run fixed init {script_to_coq(pre)})).\n'
    os.makedirs(vf.ROOT + '/.tmp', exist_ok=True)
    name = f'vm{ctx.prop.lower()}'
    p = f'{vf.ROOT}/.tmp/{name}.v'; open(p, 'w').write(body)
    r = vf.sh(f'timeout 600 coqc -noglob -R {vf.COQ} CC {p}', cwd=vf.ROOT + '/.tmp')
    outs = re.findall(r'=\s*\[(.*?)\]', r.stdout.replace('\n', ' '))
    code = {'OK': 1, 'ERR': 2, 'NONE': 3, 'SOME': 4, 'NOIDX': 5, 'DEAD': 6}
    ok = r.returncode == 0 and len(outs) == len(picked)
    detail = r.stderr[-300:]
    if ok:
        for (h, pre), o in zip(picked, outs):
            got = [int(x) for x in re.findall(r'\d+', o)]
            exp = [code[model[h][i].split('|')[0]] for i in range(len(pre))]
            if got != exp: ok = False; detail = f'history {h}: coq {got} ocaml {exp}'
    ctx.ob('correspondence', f'vm_compute of KeysMachine.run inside Coq == extracted OCaml model on {len(picked)} script prefixes', ok, detail)


def ensure_builds(ctx, configs=('default',), optional=()):
    if configs == ('default',):
        # every history check also replays a tenth of its histories on the alternative build (p-256 + ML-KEM-768), which
        # the test suite never compiles; optional: a tree on which that build does not compile is reported by C01/C02 only
        configs, optional = ('default', 'alt'), ('alt',)
        ctx.alt_histories = True
    ok = vf.build_harness(ctx, configs, optional)
    ok = vf.build_coq(ctx) and ok
    vf.forbidden_scan(ctx)
    vf.proof_obligations(ctx)
    if ctx.tier == 'thorough': vf.coqchk(ctx, ctx.prop)
    return ok


def first_mismatch(script, pred, out):
    for ln, (a, b) in enumerate(zip(pred, out)):
        if a != b.split('|')[0]: return ln, a, b.split('|')[0]
    return None


def shrink_script(script, fails, config='default'):
    """delta debugging on the operation list (SETUP kept); fails(script) -> bool runs the implementation"""
    body = script[1:]
    small = vf.ddmin(body, lambda c: fails(['SETUP'] + c))
    return ['SETUP'] + small


def run_profile(ctx, gen, n, config='default', claims=None, extra_oracle=None, trigger=None, label='', model_check=True, histories=None):
    """gen(rng) -> script.  claims(op, predicted, got) -> bool : whether a spec deviation belongs to this property.
    extra_oracle(script, impl_out) -> list of (line, what).  trigger(script) -> bool : non-trivial for this property."""
    corpus = []
    cdir = f'{vf.ROOT}/corpus/{ctx.prop}'
    if os.path.isdir(cdir):
        for fn in sorted(os.listdir(cdir)):
            if fn.endswith('.script'): corpus.append([l for l in open(f'{cdir}/{fn}').read().split('\n') if l])
    H = corpus + (histories if histories is not None else [gen(ctx.rng) for _ in range(n)])
    impl, model = hist.run_both(H, config)
    ctx.evaluations += sum(len(h) for h in H); ctx.traces += len(H)
    for scr, out in zip(H, impl):
        for l, o in zip(scr, out or []): ctx.count(l.split(' ')[0] + ':' + o.split('|')[0])
    if model_check:
        dis = hist.compare(H, impl, model)
        ctx.ob('correspondence', f'{label or ctx.prop} [{config}]: real API == KeysMachine.step (observation, MSK/MPK/USK/XEnc dumps up to token bijection) on {len(H)} histories / {sum(len(h) for h in H)} operations',
               not dis, '' if not dis else f'{len(dis)} histories disagree; first: op {dis[0][2]!r} at line {dis[0][1]}: {dis[0][5]} | impl={dis[0][3][:300]} | model={dis[0][4][:300]} | script={" ; ".join(hist.pretty(H[dis[0][0]][:dis[0][1]+1]))[:1500]}')
    else: dis = []
    # oracles on the implementation's trace only
    hits = []
    for h, scr in enumerate(H):
        out = impl[h] or []
        if len(out) != len(scr):
            hits.append((h, len(out), f'driver stopped after {len(out)} of {len(scr)} operations (crash or hang)', None)); continue
        pred = spec.predict_adaptive(scr, [o.split('|')[0] for o in out])
        for ln, (a, b) in enumerate(zip(pred, out)):
            got = b.split('|')[0]
            if a != got and a != 'ANY':
                if claims is None or claims(scr[ln].split(' ')[0], a, got):
                    hits.append((h, ln, f'{" ".join(hist.pretty([scr[ln]]))}: expected {a} by the name-level semantics, implementation returned {got}', (a, got)))
                    break
                # a failed serialization round trip belongs to C13; the deserialized object REPLACES the original, and what
                # follows is still judged by the reference semantics (a round trip must change nothing), so that the
                # consequences for THIS property are found as a concrete failing history
                if got == 'RTFAIL' and a == 'OK': continue
                # likewise a refresh that is ACCEPTED where it had to be refused belongs to C08 / C17: the reference semantics
                # leaves the key as it was, and what the (now different) key opens afterwards is still judged by the key's policy
                if got == 'OK' and a == 'ERR' and scr[ln].split(' ')[0] == 'RF': continue
                if scr[ln].split(' ')[0] == 'AP': continue       # a pure observation (policy -> rights): changes no state
                if scr[ln].split(' ')[0] == 'EN' and a == 'ERR' and got == 'OK': continue      # entered as a forced encapsulation (spec.predict_adaptive)
                break
        for (ln, prop, what) in hist.generic_oracles(scr, out):
            if prop == ctx.prop: hits.append((h, ln, what, None))
        if extra_oracle:
            for (ln, what) in extra_oracle(scr, out): hits.append((h, ln, what, None))
    if trigger:
        for scr in H:
            if trigger(scr): ctx.nontrivial.add('\n'.join(scr))
    else:
        for scr in H: ctx.nontrivial.add('\n'.join(scr))
    if len(ctx.samples) < 3 and H: ctx.samples += [' ; '.join(hist.pretty(H[-1])), ' ; '.join(hist.pretty(max(H, key=len)))]
    if hits:
        hits.sort(key=lambda t: (t[1], len(H[t[0]])))
        h, ln, what, _ = hits[0]
        scr = H[h][:ln + 1]
        def fails(c):
            out = vf.run_lines(vf.harness_bin('kdriver', config), c, timeout=40)[0]
            if len(out) != len(c): return 'stopped' in what
            if 'expected' in what:
                for ln2, (a2, b2) in enumerate(zip(spec.predict_adaptive(c, [o.split('|')[0] for o in out]), out)):
                    g2 = b2.split('|')[0]
                    if a2 != g2 and a2 != 'ANY':
                        if claims is None or claims(c[ln2].split(' ')[0], a2, g2): return True
                        if g2 == 'RTFAIL' and a2 == 'OK': continue
                        if g2 == 'OK' and a2 == 'ERR' and c[ln2].split(' ')[0] == 'RF': continue
                        if c[ln2].split(' ')[0] == 'AP': continue
                        if c[ln2].split(' ')[0] == 'EN' and a2 == 'ERR' and g2 == 'OK': continue
                        break
            gv = [w for (_, p, w) in hist.generic_oracles(c, out) if p == ctx.prop]
            if gv and 'expected' not in what: return True
            if extra_oracle and extra_oracle(c, out) and 'expected' not in what: return True
            return False
        import time as _t
        t_sh = _t.time()
        fails_b = lambda c: False if _t.time() - t_sh > 180 else fails(c)      # minimisation is bounded in time
        try: small = shrink_script(scr, fails_b, config)
        except Exception: small = scr
        out = vf.run_lines(vf.harness_bin('kdriver', config), small, timeout=120)[0]
        mo = vf.run_lines(vf.OCAML + '/kdriver', small, args=['fixed'], timeout=120)[0]
        vf.violation(ctx, what, {'config': config, 'script': small, 'script_readable': hist.pretty(small), 'minimised_from': len(scr),
                                 'expected_by_spec': spec.predict(small), 'impl': [o.split('|')[0] for o in out], 'model': [o.split('|')[0] for o in mo],
                                 'violations_total': len(hits)})
    if dis and not hits and not label.startswith('directed search'):
        # The correspondence broke but no history of the campaign shows the property itself failing: directed search.
        # Each disagreeing history is cut right after the first disagreement and continued by a probe that makes the
        # consequences observable (update, refresh of every key with both flags, an encapsulation for every attribute
        # ever named under the newest public key, every key against every encapsulation); the reference semantics judges.
        probes = []
        for d in dis[:24]:
            h, ln = d[0], d[1]
            pre = H[h][:ln + 1]; out = (impl[h] or [])[:ln + 1]
            nm = sum(1 for l, o in zip(pre, out) if l.split(' ')[0] in ('SETUP', 'UPD', 'RK', 'PR', 'MPK') and o.startswith('OK'))
            nk = sum(1 for l, o in zip(pre, out) if l.split(' ')[0] == 'KG' and o.startswith('OK'))
            ne = sum(1 for l, o in zip(pre, out) if l.split(' ')[0] in ('EN', 'RC') and o.startswith('OK'))
            atts = []
            for l in pre:
                f = l.split(' ')
                if f[0] == 'AT': atts.append((f[1], f[2]))
                if f[0] == 'RN': atts.append((f[1], f[3]))
            atts = list(dict.fromkeys(atts))[-6:]
            for keep in ('1', '0'):
                suf = ['UPD']; m = nm + 1; e = ne
                suf += [f'RF {k} {keep}' for k in range(nk)]
                for (dd, aa) in atts:
                    pol = bytes.fromhex(dd[1:]).decode() + '::' + bytes.fromhex(aa[1:]).decode()
                    suf.append(f'EN {m - 1} {hist.x(pol)}'); e += 1
                    suf.append(f'KG {hist.x(pol)}')
                suf += [f'DE {k} {j}' for k in range(nk + len(atts)) for j in range(e)][:160]
                probes.append(pre + suf)
            # ... and WITHOUT a further update: the window right after the disagreeing operation, under the newest public key
            # (single attributes and conjunctions across two dimensions), every existing key against what results
            names = [(bytes.fromhex(dd[1:]).decode(), bytes.fromhex(aa[1:]).decode()) for (dd, aa) in atts]
            pols = [f'{d}::{a}' for d, a in names] + [f'{d}::{a} && {d2}::{a2}' for i, (d, a) in enumerate(names) for (d2, a2) in names[i + 1:] if d2 != d]
            suf = [f'EN {nm - 1} {hist.x(q)}' for q in pols[:24]]
            # the policy of the disagreeing operation itself (policy -> rights observation, key generation, encapsulation) is
            # used both ways: a key for it against everything, an encapsulation for it against every key
            f0 = pre[-1].split(' '); pol0 = f0[1] if f0[0] in ('AP', 'KG') and len(f0) > 1 else f0[2] if f0[0] == 'EN' and len(f0) > 2 else None
            nk2 = nk
            if pol0 is not None:
                suf = [f'KG {pol0}', f'EN {nm - 1} {pol0}'] + suf + [f'KG {hist.x(q)}' for q in pols[:8]]; nk2 = nk + 1 + len(pols[:8])
            ne2 = ne + sum(1 for l in suf if l.startswith('EN '))
            suf += [f'DE {k} {j}' for k in range(nk2) for j in range(ne2)][:400]
            probes.append(pre + suf)
        if probes:
            _, _, _, _, phits = run_profile(ctx, None, 0, config=config, claims=claims, extra_oracle=extra_oracle, trigger=None, label='directed search from disagreeing histories', model_check=False, histories=probes)
            hits = hits + phits
    if config == 'default' and histories is None and not hits and (not label or label.startswith('cover relation')) and gen is not None and getattr(ctx, 'built_policies', True):
        # the same profile with policies BUILT by the constructors (Broadcast anywhere in the tree): judged by the reference
        # semantics only (the model's operations take strings)
        hist.AST_SHARE[0] = 0.6
        try: HB = [gen(ctx.rng) for _ in range(max(30, n // 8))]
        finally: hist.AST_SHARE[0] = 0.0
        HB = [h for h in HB if hist.has_built_policy(h)]
        if HB:
            _, _, _, _, bh = run_profile(ctx, None, 0, config=config, claims=claims, extra_oracle=extra_oracle, trigger=None, label=f'{ctx.prop} with policies built by the constructors', model_check=model_check, histories=HB)
            hits = hits + bh
    if getattr(ctx, 'alt_histories', False) and config == 'default' and histories is None and not hits and not label and 'alt' not in getattr(ctx, 'unbuilt', ()):
        run_profile(ctx, gen, max(40, n // 10), config='alt', claims=claims, extra_oracle=extra_oracle, trigger=trigger, label=f'{ctx.prop} on the alternative build', model_check=model_check)
    return H, impl, model, dis, hits


def enumerate_histories(prefix, alphabet, maxlen, suffix):
    """all operation sequences of length <= maxlen over the alphabet, between a fixed prefix and suffix (thorough tier)"""
    import itertools
    out = []
    for n in range(0, maxlen + 1):
        for seq in itertools.product(alphabet, repeat=n): out.append(prefix + list(seq) + suffix)
    return out


def exhaustive(ctx, name, prefix, alphabet, maxlen, suffix, **kw):
    H = enumerate_histories(prefix, alphabet, maxlen, suffix)
    ctx.cov.setdefault('exhaustive_enumerations', []).append({'name': name, 'alphabet': hist.pretty(alphabet), 'max_length': maxlen, 'histories': len(H)})
    return run_profile(ctx, None, 0, histories=H, label=f'exhaustive {name} (all sequences of length <= {maxlen} over {len(alphabet)} operations)', **kw)


def finish(ctx, rule):
    ctx.rule = rule
    ctx.trusted += ['extraction: ExtrOcamlBasic only (coq/Extract.v); OCaml driver ocaml/kdriver.ml',
                    'Rust harness harness/src/bin/kdriver.rs + common.rs (parses serialize() output for the dumps)',
                    'lib/hist.py (generator, differ), lib/spec.py (independent name-level reference used as implementation-side oracle)']
    ctx.assumptions += ['model = hand-written Gallina (coq/Policy.v, Structure.v, Keys.v, KeysMachine.v); theorems are about the model; model and code are tied by the differential run, which is testing, not proof',
                        'secrets are opaque tokens in the model; cryptographic correctness/soundness of decapsulation is proved separately over an abstract field with ideal hashes (coq/Crypto*.v)']
    vf.finish(ctx)


def replay(ctx, path):
    rep = json.load(open(path))
    cfg = rep.get('config', 'default')
    vf.build_harness(ctx, (cfg,)); vf.build_coq(ctx)
    scr = rep['script']
    out = vf.run_lines(vf.harness_bin('kdriver', cfg), scr, timeout=300)[0]
    mo = vf.run_lines(vf.OCAML + '/kdriver', scr, args=['fixed'], timeout=300)[0]
    pred = spec.predict_adaptive(scr, [o.split('|')[0] for o in out])
    bad = 0
    for l, a, b, c in zip(hist.pretty(scr), out, mo, pred):
        flag = '' if a.split('|')[0] == c or c == 'ANY' else '   <-- deviates from the name-level semantics'
        if flag: bad = 1
        print(f'{l:40s} impl={a.split("|")[0]:6s} model={b.split("|")[0]:6s} spec={c}{flag}')
    gv = hist.generic_oracles(scr, out)
    for g in gv: print('oracle:', g); bad = 1
    return bad
