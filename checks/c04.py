"""C04 - key rotation: refreshed keys follow the master key, stale keys fall behind."""
import histcheck as hc, profiles, vf

def trigger(scr):
    ops = [l.split(' ')[0] for l in scr]
    return 'RK' in ops and 'RF' in ops and 'DE' in ops and ops.index('RK') < len(ops) - 1

def run(ctx):
    if not hc.ensure_builds(ctx): hc.finish(ctx, 'builds failed')
    n = 500 if ctx.quick() else 12000
    H, impl, model, dis, hits = hc.run_profile(ctx, profiles.C04, n, trigger=trigger,
        claims=lambda op, a, b: op in ('DE', 'RF', 'RK', 'KG', 'EN'))
    hc.vm_crosscheck(ctx, H, model)
    hc.finish(ctx, f'{n} random histories biased to partial rekeys, refreshes with both flags and encapsulations under any earlier public key; '
              'non-trivial = contains a rekey, a later refresh and decapsulations')

replay = hc.replay
