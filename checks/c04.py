"""C04 - key rotation: refreshed keys follow the master key, stale keys fall behind."""
import histcheck as hc, profiles, vf

def trigger(scr):
    ops = [l.split(' ')[0] for l in scr]
    return 'RK' in ops and 'RF' in ops and 'DE' in ops and ops.index('RK') < len(ops) - 1

def run(ctx):
    if not hc.ensure_builds(ctx): hc.finish(ctx, 'builds failed')
    n = 500 if ctx.quick() else 12000
    H, impl, model, dis, hits = hc.run_profile(ctx, profiles.with_rotation(profiles.C04, 0.12, disable=None), n, trigger=trigger,
        claims=lambda op, a, b: op in ('DE', 'RF', 'RK', 'KG', 'EN'))
    if not ctx.quick() and not hits:
        import hist; x = hist.x
        hc.exhaustive(ctx, 'rotation sequences', ['SETUP', 'AH '+x('D'), 'AT '+x('D')+' '+x('a')+' 0 -', 'AT '+x('D')+' '+x('b')+' 1 '+x('a'), 'AT '+x('D')+' '+x('c')+' 0 '+x('b'), 'AA '+x('S'), 'AT '+x('S')+' '+x('p')+' 0 -', 'UPD', 'KG '+x('D::b'), 'KG '+x('D::c && S::p'), 'EN 1 '+x('D::a'), 'EN 1 '+x('D::c')],
            ['RK '+x('D::a'), 'RK '+x('D::c'), 'RK '+x('S::p'), 'RK '+x('*'), 'RF 0 1', 'RF 0 0', 'RF 1 1', 'EN 99 '+x('D::a'), 'EN 99 '+x('D::b || S::p'), 'EN 1 '+x('D::b')],
            5, ['DE 0 0', 'DE 0 1', 'DE 1 0', 'DE 1 1', 'DE 0 2', 'DE 1 2', 'DE 0 3', 'DE 1 3'] + ['DE 0 4', 'DE 1 4', 'DE 0 5', 'DE 1 5'], claims=lambda op, a, b: op in ('DE', 'RF', 'RK', 'KG', 'EN'))
    hc.vm_crosscheck(ctx, H, model)
    hc.finish(ctx, f'{n} random histories biased to partial rekeys, refreshes with both flags and encapsulations under any earlier public key; '
              'non-trivial = contains a rekey, a later refresh and decapsulations')

replay = hc.replay
