"""C12 - PKE and encrypted-header layers round-trip and authenticate."""
import json, subprocess
import vf, demcheck

def run(ctx):
    ok = vf.build_harness(ctx); ok = vf.build_coq(ctx) and ok
    vf.forbidden_scan(ctx); vf.proof_obligations(ctx)
    if ctx.tier == 'thorough': vf.coqchk(ctx, 'C12')
    if not ok: vf.finish(ctx)
    demcheck.campaign(ctx)
    demcheck.matrix(ctx)
    demcheck.big_metadata(ctx)
    ctx.nontrivial = set(ctx.hist)
    ctx.samples = ['PKE plaintext lengths 0,1,15,16,17,31,32,33,70,255,256,257,4095,4096,4097; every truncation <= 80 bytes and at the tail; one altered bit at every position <= 120 and at the tail',
                   'header: metadata in {absent, empty, 1, 15, 16, 17, 300 bytes} x authentication data in {absent, empty, "a", "ad", "ad2", 40 bytes} generated x the same six presented; unauthorized key; truncations and altered bytes of the encrypted metadata']
    ctx.rule = ('all combinations of plaintext length (block and nonce-size boundaries), metadata and authentication data presence/absence/emptiness, authorized and unauthorized keys, truncation at every length, single-bit corruption at every position; '
                'distinct non-trivial = distinct (scenario class, outcome)')
    ctx.trusted += ['harness/src/bin/demd.rs', 'checks/demcheck.py', 'Dem.v evaluated inside Coq (vm_compute) on its toy instance for a sample of scenarios']
    ctx.assumptions += ['AES-256-GCM idealised by DemIdeal (correctness, length, INT-CTXT); SHAKE-based KDF idealised as injective in (seed, label)']
    vf.finish(ctx)

def replay(ctx, path):
    import demcheck
    rep = json.load(open(path)); vf.build_harness(ctx)
    if 'bigmeta' in rep:
        vf.build_harness(ctx); d = demcheck.Demd(); o = d.ask(f"HDRBIG {rep['bigmeta']}"); d.close()
        print(o.replace('_', ' ')[:600]); return 0 if o.split(' ')[-1] == '-' else 1
    if 'big' in rep:
        import demcheck
        vf.build_harness(ctx); d = demcheck.Demd(); o = d.ask(f"PKEBIG {rep['big']}"); d.close()
        print(o.replace('_', ' ')[:600]); return 0 if o.split(' ')[-1] == '-' else 1
    if rep.get('matrix'):
        demcheck.matrix(ctx, 12)
        bad = [o for o in ctx.obligations if not o['ok']]
        for o in bad: print(o['name'][:80], '->', o['detail'])
        return 1 if bad else 0
    if 'ctx' in rep: cmd = f"PKEDEC 1 {rep['enc']} {rep['ctx'] or 'empty'}"
    else: cmd = f"HDRDEC 1 {rep['enc']} {rep.get('emd','-')} {rep.get('ad','-')}"
    r = subprocess.run([vf.harness_bin('demd')], input=cmd + '\n', capture_output=True, text=True)
    print(cmd[:100], '->', r.stdout.strip()[:200])
    return 0 if r.stdout.strip() in ('ERR', 'NONE') else 1
