"""C15 - the policy parser is total and logically faithful."""
import itertools, json, random
import vf

ALPHA = ['(', ')', '&', '|', ':', '*', ' ', 'a', 'b', 'é', '€', '\U0001F600', ' ', 'ż']     # U+017C: its code point truncated to a byte is '|' (a cast `as u8` would take it for a metacharacter)
NAMES = ['A', 'B', 'C', 'D1', 'Low Secret', 'é', 'naïve', 'T*', '日本', 'x y', '😀',
         # characters whose code point ends in the byte of a grammar character (space & ( ) * : |)
         'Sprzedaż', 'Ħa', 'Ĩ', 'aĩ', 'Īb', 'ĺ', 'aĠb', '在',
         '*D', '**',
         'Low  Secret', 'a\tb', 'x \u00a0y']      # blanks INSIDE a name are part of it (two spaces, a tab, a no-break space)      # a name may START with the broadcast character
WS = ['', ' ', '  ', '\t', ' ', '\n', ' ']


def gen_formula(rng, depth):
    r = rng.random()
    if rng.random() < 0.06:
        # the broadcast policy as an OPERAND: it is the constant "true" (neutral for &&, absorbing for ||)
        return ('star',), rng.choice(WS) + '*' + rng.choice(WS)
    if depth <= 0 or r < 0.3:
        d, n = rng.choice(NAMES), rng.choice(NAMES)
        return ('t', d, n), rng.choice(WS) + d + rng.choice(WS) + '::' + rng.choice(WS) + n
    if r < 0.6:
        (a, sa), (b, sb) = gen_atomish(rng, depth - 1), gen_andchain(rng, depth - 1)
        return ('and', a, b), sa + rng.choice(WS) + '&&' + sb
    if r < 0.85:
        (a, sa), (b, sb) = gen_andchain(rng, depth - 1), gen_formula(rng, depth - 1)
        return ('or', a, b), sa + rng.choice(WS) + '||' + sb
    f, s = gen_formula(rng, depth - 1)
    return f, rng.choice(WS) + '(' + s + rng.choice(WS) + ')'


def gen_atomish(rng, depth):
    f, s = gen_formula(rng, depth)
    if f[0] != 't' or rng.random() < 0.2: s = rng.choice(WS) + '(' + s + rng.choice(WS) + ')'
    return f, s


def gen_andchain(rng, depth):
    f, s = gen_formula(rng, depth)
    if f[0] == 'or': s = rng.choice(WS) + '(' + s + ')'
    return f, s


def atoms(f): return set() if f[0] == 'star' else {(f[1], f[2])} if f[0] == 't' else atoms(f[1]) | atoms(f[2])
def has_star(f): return f[0] == 'star' or (f[0] != 't' and (has_star(f[1]) or has_star(f[2])))
def ev(f, env):
    if f[0] == 'star': return True
    return env[(f[1], f[2])] if f[0] == 't' else (ev(f[1], env) and ev(f[2], env)) if f[0] == 'and' else (ev(f[1], env) or ev(f[2], env))


def parse_out(line):
    """OK d:n,d:n;...  -> list of clauses of (dim,name)"""
    body = line[3:]
    if body == '': return [[]]
    out = []
    for cl in body.split(';'):
        c = []
        if cl != '':
            for a in cl.split(','):
                d, n = a.split(':'); c.append((bytes.fromhex(d).decode(), bytes.fromhex(n).decode()))
        out.append(c)
    return out


def ev_dnf(dnf, env): return any(all(env[a] for a in cl) for cl in dnf)


def run_pair(lines):
    impl, _ = vf.run_lines(vf.harness_bin('pdriver'), lines)
    model, _ = vf.run_lines(vf.OCAML + '/driver', lines, args=['fixed'])
    return impl, model


def shrink_str(s, pred):
    return ''.join(vf.ddmin(list(s), lambda c: pred(''.join(c))))


def oracle_formula(f, out):
    """property evaluated on the implementation's answer only; returns None or a description"""
    if out == 'PANIC': return 'panic'
    if out == 'ERR':
        # '*' is not part of the documented grammar (the parser accepts it as the last element of a group only):
        # a formula using it may be rejected; when it is accepted it must be read as the constant "true"
        return None if has_star(f) else 'well-formed formula rejected'
    if not out.startswith('OK'): return 'no answer: ' + out
    dnf = parse_out(out)
    at = sorted(atoms(f))
    got = {a for cl in dnf for a in cl}
    if got - set(at): return 'attribute names not preserved: ' + repr(sorted(got - set(at)))
    if len(at) <= 10:
        for bits in itertools.product([False, True], repeat=len(at)):
            env = dict(zip(at, bits))
            if ev_dnf(dnf, env) != ev(f, env): return 'truth table of the DNF differs from the formula'
    return None


def run(ctx):
    ok_b = vf.build_harness(ctx) and vf.build_coq(ctx)
    vf.forbidden_scan(ctx)
    vf.proof_obligations(ctx)
    if not ok_b: vf.finish(ctx)
    rng = ctx.rng
    maxlen = 5 if ctx.quick() else 6
    strings = [''.join(t) for n in range(0, maxlen + 1) for t in itertools.product(ALPHA, repeat=n)]
    nform = 6000 if ctx.quick() else 150000
    forms = [gen_formula(rng, rng.randint(0, 5)) for _ in range(nform)]
    # malformed stream: longer random strings over the alphabet, and formulas with one injected defect
    junk = [''.join(rng.choice(ALPHA) for _ in range(rng.randint(7, 40))) for _ in range(3000 if ctx.quick() else 100000)]
    broken = []
    for _ in range(2000 if ctx.quick() else 50000):
        _, s = gen_formula(rng, rng.randint(1, 4)); i = rng.randrange(len(s) + 1)
        broken.append(s[:i] + rng.choice(ALPHA) + s[i + rng.randint(0, 1):])
    corpus = [l.strip('\n') for l in open(vf.ROOT + '/corpus/C15.txt')] if vf.os.path.exists(vf.ROOT + '/corpus/C15.txt') else []
    corpus = [bytes.fromhex(c).decode() for c in corpus if c]
    # formulas BUILT with the constructors (prefix notation understood by the driver only): `*` may stand anywhere, the DNF
    # must still be equivalent to the tree under every assignment
    def built(f):
        if f[0] == 'star': return 'B'
        if f[0] == 't': return f'T,{f[1].encode().hex()},{f[2].encode().hex()}'
        return ('A,' if f[0] == 'and' else 'O,') + built(f[1]) + ',' + built(f[2])
    bforms = [gen_formula(rng, rng.randint(0, 4)) for _ in range(1500 if ctx.quick() else 40000)]
    bforms = [(f, '@' + built(f)) for f, _ in bforms]
    # formulas inside dozens of redundant parentheses: the work must stay proportional to the length (a parser that parses a
    # group twice doubles it per level); run apart, under a deadline, so that the input that never comes back is named
    deep = []; dout = []; dmod = []; stuck = None
    for d in (8, 16, 24, 32, 48, 64, 200):
        grp = []
        for _ in range(2):
            _, f0 = gen_formula(rng, rng.randint(0, 2)); grp.append('(' * d + f0 + ')' * d)
        grp.append('A::b && ' + '(' * d + 'C::d || E::f' + ')' * d + ' && G::h')
        for t in grp:       # one process per input: the one that does not come back is named
            o = vf.run_lines(vf.harness_bin('pdriver'), [vf.hexs(t)], timeout=20)[0]
            deep.append(t)
            if len(o) != 1: stuck = t; break
            dout.append(o[0])
        if stuck: break
    dmod = vf.run_lines(vf.OCAML + '/driver', [vf.hexs(t) for t in deep], args=['fixed'], timeout=120)[0]
    ctx.evaluations += len(deep)
    ctx.ob('correspondence', f'{len(deep)} formulas nested in 8 to 200 redundant parentheses: each parsed within 20 s, same answer as the model', stuck is None and dout == dmod[:len(dout)], f'answers: {len(dout)} of {len(deep)}')
    if stuck is not None:
        t = stuck
        vf.violation(ctx, f'AccessPolicy::parse did not return within 20 s (or the process died) on a {len(t)}-byte formula nested in {len(t) - len(t.lstrip("("))} redundant parentheses', {'input_utf8': t, 'input_hex': vf.hexs(t), 'impl': 'no answer within 20 s'})
    all_inputs = corpus + strings + [s for _, s in forms] + junk + broken
    lines = [vf.hexs(s) for s in all_inputs]
    impl, model = run_pair(lines)
    bimpl, _ = vf.run_lines(vf.harness_bin('pdriver'), [vf.hexs(s) for _, s in bforms])
    bbad = []
    for (f, s), o in zip(bforms, bimpl):
        why = None
        if o == 'PANIC': why = 'panic'
        elif not o.startswith('OK'): why = 'a tree built with the constructors has no disjunctive normal form: ' + o
        else:
            dnf = parse_out(o); at = sorted(atoms(f))
            if {a for cl in dnf for a in cl} - set(at): why = 'attribute names not preserved'
            elif len(at) <= 10:
                for bits in itertools.product([False, True], repeat=len(at)):
                    env = dict(zip(at, bits))
                    if ev_dnf(dnf, env) != ev(f, env): why = 'truth table of the DNF differs from the tree'; break
        if why: bbad.append((s, why, o))
    ctx.evaluations += len(bforms)
    ctx.ob('correspondence', f'to_dnf of {len(bforms)} policy trees built with the constructors (Broadcast anywhere): equivalent to the tree under every assignment, names preserved', len(bimpl) == len(bforms) and not bbad, str(bbad[:2])[:400])
    if bbad:
        vf.violation(ctx, f'policy built with the constructors: {bbad[0][1]}', {'input_utf8': bbad[0][0], 'input_hex': bbad[0][0].encode().hex(), 'impl': bbad[0][2], 'violations_total': len(bbad)})
    ctx.evaluations = len(lines); ctx.traces = len(lines)
    complete = len(impl) == len(lines) and len(model) == len(lines)
    ctx.ob('correspondence', 'both drivers answered every input', complete, f'impl {len(impl)} model {len(model)} of {len(lines)}')
    n = min(len(impl), len(model), len(lines))
    dis = [i for i in range(n) if impl[i] != model[i]]
    ctx.ob('correspondence', f'AccessPolicy::parse + to_dnf == extracted Policy.parse_dnf (outcome class and DNF clause by clause) on {n} strings',
           not dis, '' if not dis else f'{len(dis)} disagreements, first: input={all_inputs[dis[0]]!r} impl={impl[dis[0]][:200]} model={model[dis[0]][:200]}')
    for o in impl[:n]: ctx.count(o.split(' ')[0])
    # vm_compute cross-check of the extracted model on a sample (extraction sanity)
    sample_idx = [rng.randrange(n) for _ in range(40)]
    vmcheck(ctx, [all_inputs[i] for i in sample_idx], [model[i] for i in sample_idx])
    # oracle (implementation only)
    viol = []
    for i in range(n):
        if impl[i] == 'PANIC': viol.append((i, 'panic'));
    base = len(corpus) + len(strings)
    for k, (f, s) in enumerate(forms):
        if base + k >= n: break
        why = oracle_formula(f, impl[base + k])
        if why: viol.append((base + k, why))
    if viol:
        i, why = viol[0]; s = all_inputs[i]
        if why == 'panic':
            s = shrink_str(s, lambda c: run_pair([vf.hexs(c)])[0][:1] == ['PANIC'])
            a, b = run_pair([vf.hexs(s)])
            vf.violation(ctx, 'AccessPolicy::parse panics', {'input_utf8': s, 'input_hex': vf.hexs(s), 'impl': a[0], 'model': b[0], 'violations_total': len(viol)})
        else:
            f = forms[i - base][0]
            vf.violation(ctx, why, {'input_utf8': s, 'input_hex': vf.hexs(s), 'formula': repr(f), 'impl': impl[i], 'model': model[i], 'violations_total': len(viol)})
    elif dis:
        # directed search: a disagreement without an oracle hit. Try to find a property failure near the disagreeing inputs.
        pass
    ctx.nontrivial = {s for s in all_inputs if any(ord(c) > 127 for c in s) or '(' in s or '&' in s or '|' in s}
    ctx.rule = (f'all strings of length <= {maxlen} over a {len(ALPHA)}-symbol alphabet (metacharacters, spaces, 1-4 byte characters), {len(forms)} random formulas '
                f'with known AST printed with random spacing/parentheses, {len(junk)} long random strings, {len(broken)} formulas with one injected defect; '
                'non-trivial = contains an operator, a parenthesis or a non-ASCII character')
    ctx.samples = [strings[len(strings) // 2], forms[0][1], max((s for _, s in forms), key=len), junk[0], broken[0]]
    ctx.cov['exhaustive'] = False
    ctx.trusted += ['extraction: ExtrOcamlBasic only; OCaml driver ocaml/driver.ml', 'Rust harness harness/src/bin/pdriver.rs (catch_unwind around parse)', 'lib/vf.py + checks/c15.py (generators, differ, oracle)']
    ctx.assumptions += ['model = hand-written Gallina (coq/Policy.v), tied to src/abe_policy/access_policy.rs + attribute.rs by the differential run',
                        'Rust str/char semantics (UTF-8 widths, char::is_whitespace table, slice panics) are modelled, not verified']
    vf.finish(ctx)


def vmcheck(ctx, inputs, model_out):
    """evaluate the same inputs inside Coq with vm_compute and compare with the extracted model's answers"""
    def cps(s): return '[' + ';'.join(str(ord(c)) for c in s) + ']%N'
    body = 'From Coq Require Import List NArith.\nFrom CC Require Import Policy.\nImport ListNotations.\n'
    body += 'Definition cls (o : outcome (list (list qattr))) : N := match o with Ok d => N.of_nat (length d) | Err => 1000 | Panic => 1001 | Hang => 1002 end.\n'
    body += 'Eval vm_compute in map (fun s => cls (parse_dnf true s)) [' + ';\n'.join(cps(s) for s in inputs) + '].\n'
    vf.os.makedirs(vf.ROOT + '/.tmp', exist_ok=True); p = vf.ROOT + '/.tmp/vmc15.v'; open(p, 'w').write(body)
    r = vf.sh(f'timeout 300 coqc -noglob -R {vf.COQ} CC {p}', cwd=vf.ROOT + '/.tmp')
    nums = [int(x) for x in vf.re.findall(r'(\d+)%N', r.stdout.replace('\n', ' '))] if r.returncode == 0 else []
    exp = []
    for o in model_out:
        exp.append(1000 if o == 'ERR' else 1001 if o == 'PANIC' else 1002 if o == 'HANG' else len(parse_out(o)))
    # Coq prints "[a; b; c]%N"; fall back to parsing without the suffix on each element
    if len(nums) != len(exp):
        m = vf.re.search(r'=\s*\[(.*?)\]', r.stdout.replace('\n', ' '))
        nums = [int(x) for x in vf.re.findall(r'\d+', m.group(1))] if m else []
    ctx.ob('correspondence', 'vm_compute (kernel) evaluation == extracted OCaml model on a sample of 40 inputs', nums == exp, f'coq={nums[:10]} ocaml={exp[:10]} {r.stderr[-300:]}')


def replay(ctx, path):
    rep = json.load(open(path))
    vf.build_harness(ctx); vf.build_coq(ctx)
    a, b = run_pair([rep['input_hex']])
    print('input:', rep.get('input_utf8')); print('impl :', a[0]); print('model:', b[0])
    return 1 if a[0] == 'PANIC' or a[0] != b[0] else 0
