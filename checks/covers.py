"""Name-level cover relation exactly as property C01/C02 states it, evaluated on a script of the 'static' profile
(structure built, updated once, then keygens / encapsulations / decapsulations).  Independent of lib/spec.py's
right computation: it never builds rights, it compares names and ranks."""
import spec, hist

def structure_at_update(script):
    s = spec.Spec()
    for l in script:
        if l.split(' ')[0] in ('KG', 'EN', 'DE'): break
        s.step(l)
    return {d: (k, [n for n, _ in l]) for d, (k, l) in s.dims.items()}

def clause_ok(dims, cl):
    ds = [d for d, _ in cl]
    return len(set(ds)) == len(ds) and all(d in dims and n in dims[d][1] for d, n in cl)

def covers(dims, U, E):
    um = dict(U)
    for d, e in E:
        if d not in um: continue
        kind, names = dims[d]
        if kind == 'AA':
            if um[d] != e: return False
        else:
            if names.index(e) > names.index(um[d]): return False
    return True

def expected(dims, up, ep):
    """None if outside the property's quantifier (ill-formed clause), else True/False"""
    du, de = spec.parse_policy(up), spec.parse_policy(ep)
    if du is None or de is None: return None
    if not all(clause_ok(dims, c) for c in du + de): return None
    return any(covers(dims, U, E) for U in du for E in de)

def oracle(script, out, want):
    """want = True: report authorized pairs that did not open (C01); False: unauthorized pairs that opened (C02)"""
    dims = structure_at_update(script)
    kgs = []; ens = []; hits = []
    for ln, (l, o) in enumerate(zip(script, out)):
        f = l.split(' '); ob = o.split('|')[0]
        if f[0] == 'KG' and ob == 'OK': kgs.append(hist.unx(f[1]))
        if f[0] == 'EN' and ob == 'OK': ens.append(hist.unx(f[2]))
        if f[0] == 'DE' and ob in ('SOME', 'NONE', 'WRONG', 'DERR') and kgs and ens:
            up = kgs[int(f[1]) % len(kgs)]; ep = ens[int(f[2]) % len(ens)]
            exp = expected(dims, up, ep)
            if exp is None: continue
            if want and exp and ob != 'SOME': hits.append((ln, f'key for "{up}" covers "{ep}" but decapsulation returned {ob}'))
            if not want and not exp and ob != 'NONE': hits.append((ln, f'key for "{up}" does not cover "{ep}" but decapsulation returned {ob}'))
    return hits
