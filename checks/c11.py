"""C11 - post-quantum protection is applied exactly where the policy asks for it."""
import histcheck as hc, profiles, dumps, hist, vf

def flavour_oracle(scr, out):
    hits = []
    # the MODE of every encapsulation and re-encapsulation: hybridized iff every right it targets is (reference semantics)
    import spec
    if any(l.split(' ')[0] in ('EN', 'RC') for l in scr) and not any(l.split(' ')[0] in ('REST', 'HINT') for l in scr):
        for ln, (m, o) in enumerate(zip(spec.predict_modes(scr), out)):
            parts = o.split('|')
            if m is None or parts[0] != 'OK' or len(parts) < 3 or not parts[2].startswith('ENC'): continue
            got = ' h=1 ' in parts[2] + ' '
            if got != m:
                hits.append((ln, f'{" ".join(hist.pretty([scr[ln]]))}: the encapsulation is {"hybridized" if got else "classic"}, every right it targets is {"hybridized: it must be hybridized" if m else "not hybridized: it must be classic"}')); break
    for ln, (l, o) in enumerate(zip(scr, out)):
        parts = o.split('|')
        if l.split(' ')[0] == 'REST' and parts[0] == 'OK': return hits      # a restored backup rolls identifiers back: keys issued since are outside its history
        if len(parts) < 2: continue
        kind, f, items = dumps.fields(parts[1])
        st = dumps.structure(f.get('S', ''))
        hint = {}
        for _, (k, attrs) in st.items():
            for (n, i, h, e) in attrs: hint[i] = h
        op = l.split(' ')[0]
        fresh_update = op in ('UPD', 'SETUP') and parts[0] == 'OK'
        def expect(rhex):
            ids = dumps.leb_ids(rhex)
            if any(i not in hint for i in ids): return None     # right of an attribute deleted but not yet updated away
            return any(hint[i] for i in ids)
        for r, ch in items.items():
            exp = expect(r)
            if exp is None: continue
            for s in ch:
                fl, hyb, _ = s.split('/')
                if (hyb == '1') != exp:
                    hits.append((ln, f'master key: secret of right {r} (ids {dumps.leb_ids(r)}) is {"hybridized" if hyb == "1" else "classic"} but the attributes\' hints say {"hybridized" if exp else "classic"}')); break
            else: continue
            break
        for d in parts[2:]:
            k2, f2, it2 = dumps.fields(d)
            if k2 in ('MPK', 'USK'):
                for r, ch in it2.items():
                    exp = expect(r)
                    if exp is None: continue
                    for s in ch:
                        hyb = s.split('/')[0]
                        if (hyb == '1') != exp:
                            hits.append((ln, f'{k2}: key material of right {r} is {"hybridized" if hyb == "1" else "classic"}, expected {"hybridized" if exp else "classic"}')); break
    return hits

def trigger(scr):
    hs = [l.split(' ')[3] for l in scr if l.split(' ')[0] == 'AT']
    return '0' in hs and '1' in hs and any(l.startswith('EN') for l in scr) and any(l.startswith('RK') for l in scr)

def kem_binding(ctx):
    """'carries ML-KEM ciphertexts bound into the tag': in hybridized encapsulations with one or several targets, one byte of
    ANY of the ML-KEM ciphertexts altered (also of a slot the recipient does not open) => no key opens it any more"""
    import subprocess, c07
    sz = vf.CONFIGS['default']['sizes']; c07.PT, c07.CT = sz['PT'], sz['CT']
    layout, _ = c07.coq_layout(ctx)
    p = subprocess.Popen([vf.harness_bin('mutd'), layout], stdin=subprocess.PIPE, stdout=subprocess.PIPE, text=True)
    p.stdin.write('GEN\n'); p.stdin.flush()
    encs = []; usks = []
    while True:
        l = p.stdout.readline().strip()
        if l == 'END' or not l: break
        f = l.split(' ')
        if f[0] == 'ENC': encs.append((bytes.fromhex(f[1]), f[2]))
        else: usks.append(f[1])
    def ask(e, u):
        p.stdin.write(f'TRY {e.hex()} {u}\n'); p.stdin.flush()
        return p.stdout.readline().strip().split(' ')[0][5:]
    n = 0; bad = []
    for e, s in encs:
        pe = c07.Enc(e)
        if not pe.hyb: continue
        openers = [u for u in usks if ask(e, u) == 'SOME:' + s]; n += len(usks)
        for j in range(len(pe.es)):
            for pos in (0, c07.CT // 2, c07.CT - 1):
                t = pe.copy(); ct = bytearray(t.es[j][0]); ct[pos] ^= 0x10; t.es[j] = (bytes(ct), t.es[j][1]); m = t.build()
                for u in openers:
                    ask(e, u); r = ask(m, u); n += 2
                    if r.startswith('SOME') or r == 'PANIC': bad.append((len(pe.es), j, pos, r[:30], e.hex(), m.hex(), u))
    p.stdin.close(); p.wait()
    ctx.evaluations += n
    ctx.ob('correspondence', f'hybridized encapsulations (1 and 2 targets): one byte of each ML-KEM ciphertext altered in turn, offered to every key that opens the original ({n} decapsulations): none opens', not bad, str([b[:4] for b in bad[:3]]))
    if bad:
        k, j, pos, r, eh, mh, u = bad[0]
        vf.violation(ctx, f'hybridized encapsulation with {k} targets: byte {pos} of the ML-KEM ciphertext of entry {j} altered, still opened ({r}): the ciphertexts are not bound into the tag', {'original_enc_hex': eh, 'mutated_enc_hex': mh, 'usk_hex': u, 'violations_total': len(bad)})


def run(ctx):
    if not hc.ensure_builds(ctx): hc.finish(ctx, 'builds failed')
    n = 500 if ctx.quick() else 10000
    # the name-level semantics also predicts the mode of every encapsulation (h=) through decapsulation outcomes of classic-only holders
    H, impl, model, dis, hits = hc.run_profile(ctx, (lambda g0: (lambda rng: profiles.mixed_recaps_scenario(rng) if rng.random() < 0.06 else g0(rng)))(profiles.with_scenarios(profiles.C11)), n, trigger=trigger, extra_oracle=flavour_oracle, claims=lambda op, a, b: op in ('EN', 'DE'))
    if not hits: kem_binding(ctx)
    hc.vm_crosscheck(ctx, H, model)
    hc.finish(ctx, f'{n} random histories over structures with arbitrary hint assignments, single/multi-target and mixed policies, through rekey/refresh/round trips; every dump is checked: a right is hybridized iff one of its '
              'attributes was declared hybridized, in master, public and user keys; the encapsulation mode (h=) is compared with the model; non-trivial = both hints present, a rekey and an encapsulation')

def replay(ctx, path):
    import json
    rep = json.load(open(path))
    if 'mutated_enc_hex' not in rep: return hc.replay(ctx, path)
    import c07
    return c07.replay(ctx, path)
