"""C11 - post-quantum protection is applied exactly where the policy asks for it."""
import histcheck as hc, profiles, dumps, hist, vf

def flavour_oracle(scr, out):
    hits = []
    for ln, (l, o) in enumerate(zip(scr, out)):
        parts = o.split('|')
        if l.split(' ')[0] == 'REST' and parts[0] == 'OK': return hits      # a restored backup rolls identifiers back: keys issued since are outside its history
        if len(parts) < 2: continue
        kind, f, items = dumps.fields(parts[1])
        st = dumps.structure(f.get('S', ''))
        hint = {}
        for _, (k, attrs) in st.items():
            for (n, i, h, e) in attrs: hint[i] = h
        op = l.split(' ')[0]
        fresh_update = op in ('UPD', 'SETUP') and parts[0] == 'OK'
        def expect(rhex):
            ids = dumps.leb_ids(rhex)
            if any(i not in hint for i in ids): return None     # right of an attribute deleted but not yet updated away
            return any(hint[i] for i in ids)
        for r, ch in items.items():
            exp = expect(r)
            if exp is None: continue
            for s in ch:
                fl, hyb, _ = s.split('/')
                if (hyb == '1') != exp:
                    hits.append((ln, f'master key: secret of right {r} (ids {dumps.leb_ids(r)}) is {"hybridized" if hyb == "1" else "classic"} but the attributes\' hints say {"hybridized" if exp else "classic"}')); break
            else: continue
            break
        for d in parts[2:]:
            k2, f2, it2 = dumps.fields(d)
            if k2 in ('MPK', 'USK'):
                for r, ch in it2.items():
                    exp = expect(r)
                    if exp is None: continue
                    for s in ch:
                        hyb = s.split('/')[0]
                        if (hyb == '1') != exp:
                            hits.append((ln, f'{k2}: key material of right {r} is {"hybridized" if hyb == "1" else "classic"}, expected {"hybridized" if exp else "classic"}')); break
    return hits

def trigger(scr):
    hs = [l.split(' ')[3] for l in scr if l.split(' ')[0] == 'AT']
    return '0' in hs and '1' in hs and any(l.startswith('EN') for l in scr) and any(l.startswith('RK') for l in scr)

def run(ctx):
    if not hc.ensure_builds(ctx): hc.finish(ctx, 'builds failed')
    n = 500 if ctx.quick() else 10000
    # the name-level semantics also predicts the mode of every encapsulation (h=) through decapsulation outcomes of classic-only holders
    H, impl, model, dis, hits = hc.run_profile(ctx, profiles.with_scenarios(profiles.C11), n, trigger=trigger, extra_oracle=flavour_oracle, claims=lambda op, a, b: op in ('EN', 'DE'))
    hc.vm_crosscheck(ctx, H, model)
    hc.finish(ctx, f'{n} random histories over structures with arbitrary hint assignments, single/multi-target and mixed policies, through rekey/refresh/round trips; every dump is checked: a right is hybridized iff one of its '
              'attributes was declared hybridized, in master, public and user keys; the encapsulation mode (h=) is compared with the model; non-trivial = both hints present, a rekey and an encapsulation')

replay = hc.replay
