"""C06 - disabled attributes can never be encrypted to again, but stay decryptable."""
import histcheck as hc, profiles, hist, spec, vf

def trigger(scr):
    ops = [l.split(' ')[0] for l in scr]
    if 'DS' not in ops: return False
    i = ops.index('DS')
    return 'UPD' in ops[i:] and 'EN' in ops[i:] and any(o in ops[i:] for o in ('RK', 'PR', 'RT', 'MPK'))

def direct(scr, out):
    """After Disable d::n and a successful update, no LATER public key may accept a policy that names the attribute
    (tracked through renames).  Evaluated on the implementation trace only."""
    hits = []
    disabled = {}          # (dim, current name) -> index of the first mpk produced at/after the update that made it effective
    pending = set()
    nmpk = 0
    for ln, (l, o) in enumerate(zip(scr, out)):
        f = l.split(' '); ob = o.split('|')[0]
        if f[0] == 'SETUP': disabled = {}; pending = set(); nmpk = 1; continue
        if f[0] == 'DS' and ob == 'OK': pending.add((hist.unx(f[1]), hist.unx(f[2])))
        elif f[0] == 'RN' and ob == 'OK':
            d, a, b = hist.unx(f[1]), hist.unx(f[2]), hist.unx(f[3])
            if (d, a) in pending: pending.discard((d, a)); pending.add((d, b))
            if (d, a) in disabled: disabled[(d, b)] = disabled.pop((d, a))
        elif f[0] == 'DT' and ob == 'OK':
            pending.discard((hist.unx(f[1]), hist.unx(f[2]))); disabled.pop((hist.unx(f[1]), hist.unx(f[2])), None)
        elif f[0] == 'DD' and ob == 'OK':
            d = hist.unx(f[1]); pending = {x for x in pending if x[0] != d}; disabled = {k: v for k, v in disabled.items() if k[0] != d}
        elif f[0] == 'UPD' and ob == 'OK':
            for x in pending: disabled.setdefault(x, nmpk)
            pending = set()
        if f[0] in ('UPD', 'MPK', 'RK', 'PR') and ob == 'OK': nmpk += 1
        if f[0] == 'EN' and ob == 'OK' and nmpk:
            j = int(f[1]) % nmpk; dnf = spec.parse_policy(hist.unx(f[2])) or []
            for cl in dnf:
                for (d, n) in cl:
                    # names in old snapshots may differ (renames); only judge snapshots taken after the disabling took effect,
                    # where the current name is the name in that snapshot or the attribute was renamed later (then the old name is unknown there)
                    if (d, n) in disabled and j >= disabled[(d, n)]:
                        hits.append((ln, f'encapsulation for "{hist.unx(f[2])}" succeeded under public key #{j} although {d}::{n} was disabled before that key was produced'))
    return hits

def run(ctx):
    if not hc.ensure_builds(ctx): hc.finish(ctx, 'builds failed')
    n = 500 if ctx.quick() else 12000
    H, impl, model, dis, hits = hc.run_profile(ctx, profiles.C06, n, trigger=trigger, extra_oracle=direct,
        claims=lambda op, a, b: op in ('EN', 'DE', 'RF', 'UPD'))
    hc.vm_crosscheck(ctx, H, model)
    hc.finish(ctx, f'{n} random histories ... Disable a . Update . (Rekey|Prune|Mpk|RoundTrip|Keygen|Refresh|Update)* . Encaps under every public key ever produced; '
              'non-trivial = a disable, a later update, a later rekey/prune/round-trip/re-derivation and a later encapsulation')

replay = hc.replay
