"""C06 - disabled attributes can never be encrypted to again, but stay decryptable."""
import histcheck as hc, profiles, hist, spec, vf

def trigger(scr):
    ops = [l.split(' ')[0] for l in scr]
    if 'DS' not in ops: return False
    i = ops.index('DS')
    return 'UPD' in ops[i:] and 'EN' in ops[i:] and any(o in ops[i:] for o in ('RK', 'PR', 'RT', 'MPK'))

def direct(scr, out):
    """After Disable of an attribute and a successful update, no public key produced from then on may accept a policy
    that names the attribute.  Attributes are tracked as entities through renames, and a policy is resolved with the
    names the PUBLIC KEY's own structure snapshot had (an old public key keeps the old names).  Implementation trace only."""
    hits = []
    names = {}             # (dim, name) -> entity (live structure)
    ent = 0
    pending = set()        # entities disabled in the structure, not yet made effective by an update
    effective = {}         # entity -> index of the first public key produced at/after the update that made it effective
    snaps = []             # per public key: copy of `names` at the time it was produced
    for ln, (l, o) in enumerate(zip(scr, out)):
        f = l.split(' '); ob = o.split('|')[0]
        if f[0] == 'SETUP': names = {}; pending = set(); effective = {}; snaps = [dict()]; continue
        if ob == 'OK':
            if f[0] == 'AT': names[(hist.unx(f[1]), hist.unx(f[2]))] = ent; ent += 1
            elif f[0] == 'DT': names.pop((hist.unx(f[1]), hist.unx(f[2])), None)
            elif f[0] == 'DD': names = {k: v for k, v in names.items() if k[0] != hist.unx(f[1])}
            elif f[0] == 'RN':
                k = (hist.unx(f[1]), hist.unx(f[2]))
                if k in names: names[(hist.unx(f[1]), hist.unx(f[3]))] = names.pop(k)
            elif f[0] == 'DS':
                k = (hist.unx(f[1]), hist.unx(f[2]))
                if k in names: pending.add(names[k])
            elif f[0] == 'REST': return hits        # a restored backup rolls the history back: stop judging this history
            if f[0] == 'UPD':
                for e in pending: effective.setdefault(e, len(snaps))
                pending = set()
            if f[0] in ('UPD', 'MPK', 'RK', 'PR'): snaps.append(dict(names))
            if f[0] == 'EN' and snaps:
                j = int(f[1]) % len(snaps); dnf = spec.parse_policy(hist.unx(f[2])) or []
                for cl in dnf:
                    for (d, n) in cl:
                        e = snaps[j].get((d, n))
                        if e is not None and e in effective and j >= effective[e]:
                            hits.append((ln, f'encapsulation for "{hist.unx(f[2])}" succeeded under public key #{j} although the attribute it calls {d}::{n} was disabled before that key was produced'))
    return hits

def run(ctx):
    if not hc.ensure_builds(ctx): hc.finish(ctx, 'builds failed')
    n = 500 if ctx.quick() else 12000
    H, impl, model, dis, hits = hc.run_profile(ctx, profiles.with_scenarios(profiles.with_rotation(profiles.C06, 0.12, disable=True), 0.1), n, trigger=trigger, extra_oracle=direct,
        claims=lambda op, a, b: op in ('EN', 'DE', 'RF', 'UPD'))
    if not ctx.quick() and not hits:
        x = hist.x
        hc.exhaustive(ctx, 'disable sequences', ['SETUP', 'AH '+x('D'), 'AT '+x('D')+' '+x('a')+' 0 -', 'AT '+x('D')+' '+x('b')+' 1 '+x('a'), 'AT '+x('D')+' '+x('c')+' 0 '+x('b'), 'AA '+x('S'), 'AT '+x('S')+' '+x('p')+' 0 -', 'UPD', 'KG '+x('D::b'), 'KG '+x('D::c && S::p'), 'EN 1 '+x('D::a'), 'EN 1 '+x('D::c')],
            ['DS '+x('D')+' '+x('a'), 'DS '+x('D')+' '+x('c'), 'UPD', 'RK '+x('D::a'), 'RK '+x('*'), 'PR '+x('D::a'), 'MPK', 'RT MSK', 'RN '+x('D')+' '+x('a')+' '+x('z'), 'EN 99 '+x('D::a'), 'EN 99 '+x('D::c && S::p')],
            5, ['DE 0 0', 'DE 0 1', 'DE 1 0', 'DE 1 1', 'DE 0 2', 'DE 1 2', 'DE 0 3', 'DE 1 3'] + ['EN 99 '+x('D::a'), 'EN 99 '+x('D::z'), 'RF 0 1', 'DE 0 0'], extra_oracle=direct, claims=lambda op, a, b: op in ('EN', 'DE', 'RF', 'UPD'))
    hc.vm_crosscheck(ctx, H, model)
    hc.finish(ctx, f'{n} random histories ... Disable a . Update . (Rekey|Prune|Mpk|RoundTrip|Keygen|Refresh|Update)* . Encaps under every public key ever produced; '
              'non-trivial = a disable, a later update, a later rekey/prune/round-trip/re-derivation and a later encapsulation')

replay = hc.replay
