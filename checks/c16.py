"""C16 - every secret, nonce and identifier is fresh."""
import json
import vf

def run(ctx):
    ok = vf.build_harness(ctx, ('default', 'alt'), optional=('alt',)); ok = vf.build_coq(ctx) and ok
    vf.forbidden_scan(ctx); vf.proof_obligations(ctx)
    if ctx.tier == 'thorough': vf.coqchk(ctx, 'C16')
    if not ok: vf.finish(ctx)
    n = 6000 if ctx.quick() else 120000
    runs = [('default', ['fresh', str(n), '1']), ('default', ['fresh', str(max(50, n // 20)), '8']), ('default', ['stress', '8', str(max(200, n // 40))]), ('alt', ['fresh', str(max(100, n // 10)), '1'])]
    for cfg, args in runs:
        if cfg in ctx.unbuilt: continue
        r = vf.sh([vf.harness_bin('concd', cfg)] + args, timeout=6000)
        vals = {}; fails = []
        for l in r.stdout.split('\n'):
            if l.startswith('VAL '): _, k, v = l.split(' '); vals.setdefault(k, []).append(v)
            elif l.startswith('FAIL'): fails.append(l)
        tot = sum(len(v) for v in vals.values()); ctx.evaluations += tot; ctx.traces += tot
        for k, v in vals.items(): ctx.count(f'{k.split(":")[0]}', len(v))
        dup = {}
        for k, v in vals.items():
            seen = {}; 
            for i, x in enumerate(v):
                if x in seen: dup[k] = (x, seen[x], i); break
                seen[x] = i
        # nonces with little entropy would also show as short common prefixes: check the first 4 bytes of nonces are not constant
        for k in ('nonce',):
            if k in vals and len(vals[k]) > 50 and len({x[:8] for x in vals[k]}) < len(vals[k]) // 2:
                dup[k + '-prefix'] = ('first 4 bytes take only %d values over %d nonces' % (len({x[:8] for x in vals[k]}), len(vals[k])), 0, 0)
        ctx.ob('freshness', f'[{cfg}] concd {" ".join(args)}: {tot} values, pairwise distinct per kind (secrets, tags, traps, AEAD nonces, user ids, published public values per right)', not dup and not fails, str(dup)[:300] + ' '.join(fails[:2]))
        if fails: vf.violation(ctx, fails[0], {'mode': ' '.join(args), 'config': cfg})
        if dup:
            k = next(iter(dup)); vf.violation(ctx, f'{k} repeats: {dup[k][0]} (calls #{dup[k][1]} and #{dup[k][2]})', {'mode': ' '.join(args), 'config': cfg, 'kind': k, 'value': str(dup[k][0])})
        if len(ctx.samples) < 4 and vals: ctx.samples.append({k: v[0] for k, v in list(vals.items())[:6]})
    # instances created by DIFFERENT threads, each used alone (identical call sequences) or first used by several threads at once
    import conc
    conc.burst(ctx, 6, 1, 12 if ctx.quick() else 120, what=' (identical call sequences on every instance)')
    for ni, nt in ((24, 8), (48, 4)):
        conc.burst(ctx, ni if ctx.quick() else 4 * ni, nt, 2 if ctx.quick() else 6)
    # refused calls (unknown attribute / dimension) between successful ones, alone and under contention
    conc.burst(ctx, 1, 1, 150 if ctx.quick() else 3000, kind=7, what=' (refused calls interleaved with encapsulations and headers, one thread)')
    conc.burst(ctx, 1, 8, 60 if ctx.quick() else 1500, kind=7, what=' (refused calls interleaved, 8 threads)')
    for kind, what, k in ((0, 'encaps', 1500), (1, 'PKE encrypt', 800), (2, 'header generate', 800)):
        conc.burst(ctx, 1, 16, k if ctx.quick() else 12 * k, kind=kind, what=f' (all {what}; contention at volume)')
    conc.poison(ctx, 6 if ctx.quick() else 60)
    # a third of a million encapsulations compared with one another (a seed or state of 32 bits repeats itself at this volume)
    conc.volume(ctx, 16, 20000 if ctx.quick() else 60000)
    # histories: a public value that has been REPLACED (by a rekey) is never published again, whatever is disabled, pruned,
    # updated or re-derived afterwards ("every rekey publishes a public value never published before")
    import histcheck as hc, profiles, dumps
    def republish(scr, out):
        import spec
        hits = []; seen = {}; cur = {}
        try: rek = spec.predict_rekeyed(scr)
        except Exception: rek = [None] * len(scr)
        for ln, (l, o) in enumerate(zip(scr, out)):
            parts = o.split('|')
            if l.split(' ')[0] == 'SETUP': seen = {}; cur = {}
            # a rekey that reports success: every right of the policy must come out with a value it did not have before
            if rek[ln] and len(parts) >= 3 and parts[2].startswith('MPK') and parts[0] == 'OK' and ' K=' in parts[2]:
                items = dict(it.split('=', 1) for it in parts[2].split(' K=', 1)[1].split(' ') if '=' in it)
                same = sorted(r for r in rek[ln] if r in items and r in cur and items[r].split('/')[-1] == cur[r])
                if same: hits.append((ln, f'rekey succeeded and right {same[0]} keeps the public value {cur[same[0]]} it had before')); break
            if len(parts) >= 3 and parts[2].startswith('MPK') and parts[0] == 'OK' and ' K=' in parts[2]:
                items = dict(it.split('=', 1) for it in parts[2].split(' K=', 1)[1].split(' ') if '=' in it)
                for r, v in items.items():
                    tok = v.split('/')[-1]
                    if cur.get(r) != tok:
                        if tok in seen.get(r, set()): hits.append((ln, f'the public value {tok} of right {r} had been replaced earlier and is published again')); break
                        seen.setdefault(r, set()).add(tok); cur[r] = tok
        return hits
    hc.run_profile(ctx, profiles.C16H, 150 if ctx.quick() else 4000, claims=lambda op, a, b: False, extra_oracle=republish, label='C16 rotation histories')
    # the DEM interface used directly: one key, one plaintext, many encryptions
    k = 400 if ctx.quick() else 20000
    vals, dup, fails, done = conc.run(ctx, ['ae', k])
    ctx.evaluations += 2 * k
    ctx.ob('freshness', f'concd ae {k}: {2 * k} encryptions through traits::AE under one key (one plaintext repeated, one empty): nonces pairwise distinct, every ciphertext decrypts', not dup and not fails and bool(vals), str(dup)[:200] + ' '.join(fails[:2]))
    if dup or fails: vf.violation(ctx, 'two DEM encryptions under the same key share their nonce' if dup else fails[0], {'mode': f'ae {k}', 'config': 'default', 'duplicates': {a: b[0] for a, b in dup.items()}})
    import demcheck as _dc
    _dc.big_metadata(ctx)
    # the metadata key must differ from the secret handed to the caller, whatever the authentication data
    import demcheck
    d = demcheck.Demd(); same = []
    ads = [None, b''] + [bytes([b]) for b in range(256)] + [b'ad', b'\x00\x00', b'\x01\x00', b'\x00\x01', b'Covercrypt AE key'] + ([bytes([a, b]) for a in range(4) for b in range(256)] if not ctx.quick() else [])
    for ad in ads:
        for md in (b'm', b''):
            if d.ask(f'HDRKEY {demcheck.opt(md)} {demcheck.opt(ad)}') != 'DIFF': same.append((md, ad))
    ctx.evaluations += d.n; d.close()
    ctx.ob('freshness', f'the secret returned by EncryptedHeader::generate never decrypts the encrypted metadata as an AES key ({len(ads)} authentication data values incl. every single byte)', not same, str(same[:3]))
    if same: vf.violation(ctx, f'the secret handed to the caller IS the metadata encryption key when the authentication data is {same[0][1]!r}', {'mode': 'HDRKEY', 'metadata_hex': same[0][0].hex(), 'authentication_data_hex': (same[0][1] or b'').hex(), 'config': 'default'})
    ctx.nontrivial = max(2, ctx.evaluations)
    ctx.rule = (f'{n} identical calls of each kind on one instance, {max(50, n // 20)} on each of 8 instances, 8 threads on a shared instance, and the alternative build; '
                'values compared pairwise per kind; the encrypted metadata is additionally decrypted with the RETURNED secret as AES key and must fail; distinct non-trivial = number of fresh values compared')
    ctx.trusted += ['harness/src/bin/concd.rs']
    ctx.assumptions += ['PARTIAL: the theorems show that every secret, nonce and identifier is an injective function of a draw private to its call; that the draws of the real CSPRNG (ChaCha, seeded from OS entropy) never repeat is assumed and only observed statistically']
    vf.finish(ctx)

def replay(ctx, path):
    rep = json.load(open(path)); vf.build_harness(ctx, (rep.get('config', 'default'),))
    if 'bigmeta' in rep:
        import demcheck
        vf.build_harness(ctx); d = demcheck.Demd(); o = d.ask(f"HDRBIG {rep['bigmeta']}"); d.close()
        print(o.replace('_', ' ')[:600]); return 0 if o.split(' ')[-1] == '-' else 1
    if 'script' in rep:
        # a history on which a replaced public value came back: print the published values of the rights line by line
        out = vf.run_lines(vf.harness_bin('kdriver', rep.get('config', 'default')), rep['script'], timeout=300)[0]
        seen = {}; cur = {}; bad = 0
        import hist
        for l, o in zip(hist.pretty(rep['script']), out):
            parts = o.split('|'); note = ''
            if len(parts) >= 3 and parts[2].startswith('MPK') and ' K=' in parts[2]:
                for it in parts[2].split(' K=', 1)[1].split(' '):
                    if '=' not in it: continue
                    r, v = it.split('=', 1); tok = v.split('/')[-1]
                    if cur.get(r) != tok:
                        if tok in seen.get(r, set()): note += f'  <-- {r} publishes {tok} AGAIN'; bad = 1
                        seen.setdefault(r, set()).add(tok); cur[r] = tok
            print(f'{l:40s} {parts[0]}{note}')
        return bad
    r = vf.sh([vf.harness_bin('concd', rep.get('config', 'default'))] + rep['mode'].split(' '), timeout=6000)
    vals = {}
    for l in r.stdout.split('\n'):
        if l.startswith('VAL '): _, k, v = l.split(' '); vals.setdefault(k, []).append(v)
    bad = {k: len(v) - len(set(v)) for k, v in vals.items() if len(v) != len(set(v))}
    dv = [l for l in r.stdout.split('\n') if l.startswith('DUPV ')]
    for l in dv[:5]: print(l)
    print(bad or ('all distinct' if not dv else f'{len(dv)} repeated values')); return 1 if bad or dv or 'FAIL' in r.stdout else 0
