"""C16 - every secret, nonce and identifier is fresh."""
import json
import vf

def run(ctx):
    ok = vf.build_harness(ctx, ('default', 'alt'), optional=('alt',)); ok = vf.build_coq(ctx) and ok
    vf.forbidden_scan(ctx); vf.proof_obligations(ctx)
    if ctx.tier == 'thorough': vf.coqchk(ctx, 'C16')
    if not ok: vf.finish(ctx)
    n = 6000 if ctx.quick() else 120000
    runs = [('default', ['fresh', str(n), '1']), ('default', ['fresh', str(max(50, n // 20)), '8']), ('default', ['stress', '8', str(max(200, n // 40))]), ('alt', ['fresh', str(max(100, n // 10)), '1'])]
    for cfg, args in runs:
        if cfg in ctx.unbuilt: continue
        r = vf.sh([vf.harness_bin('concd', cfg)] + args, timeout=6000)
        vals = {}; fails = []
        for l in r.stdout.split('\n'):
            if l.startswith('VAL '): _, k, v = l.split(' '); vals.setdefault(k, []).append(v)
            elif l.startswith('FAIL'): fails.append(l)
        tot = sum(len(v) for v in vals.values()); ctx.evaluations += tot; ctx.traces += tot
        for k, v in vals.items(): ctx.count(f'{k.split(":")[0]}', len(v))
        dup = {}
        for k, v in vals.items():
            seen = {}; 
            for i, x in enumerate(v):
                if x in seen: dup[k] = (x, seen[x], i); break
                seen[x] = i
        # nonces with little entropy would also show as short common prefixes: check the first 4 bytes of nonces are not constant
        for k in ('nonce',):
            if k in vals and len(vals[k]) > 50 and len({x[:8] for x in vals[k]}) < len(vals[k]) // 2:
                dup[k + '-prefix'] = ('first 4 bytes take only %d values over %d nonces' % (len({x[:8] for x in vals[k]}), len(vals[k])), 0, 0)
        ctx.ob('freshness', f'[{cfg}] concd {" ".join(args)}: {tot} values, pairwise distinct per kind (secrets, tags, traps, AEAD nonces, user ids, published public values per right)', not dup and not fails, str(dup)[:300] + ' '.join(fails[:2]))
        if fails: vf.violation(ctx, fails[0], {'mode': ' '.join(args), 'config': cfg})
        if dup:
            k = next(iter(dup)); vf.violation(ctx, f'{k} repeats: {dup[k][0]} (calls #{dup[k][1]} and #{dup[k][2]})', {'mode': ' '.join(args), 'config': cfg, 'kind': k, 'value': str(dup[k][0])})
        if len(ctx.samples) < 4 and vals: ctx.samples.append({k: v[0] for k, v in list(vals.items())[:6]})
    # instances created by DIFFERENT threads, each used alone (identical call sequences) or first used by several threads at once
    import conc
    conc.burst(ctx, 6, 1, 12 if ctx.quick() else 120, what=' (identical call sequences on every instance)')
    conc.burst(ctx, 4 if ctx.quick() else 12, 4, 6 if ctx.quick() else 30)
    for kind, what, k in ((0, 'encaps', 1500), (1, 'PKE encrypt', 800), (2, 'header generate', 800)):
        conc.burst(ctx, 1, 16, k if ctx.quick() else 12 * k, kind=kind, what=f' (all {what}; contention at volume)')
    # the metadata key must differ from the secret handed to the caller, whatever the authentication data
    import demcheck
    d = demcheck.Demd(); same = []
    ads = [None, b''] + [bytes([b]) for b in range(256)] + [b'ad', b'\x00\x00', b'\x01\x00', b'\x00\x01', b'Covercrypt AE key'] + ([bytes([a, b]) for a in range(4) for b in range(256)] if not ctx.quick() else [])
    for ad in ads:
        for md in (b'm', b''):
            if d.ask(f'HDRKEY {demcheck.opt(md)} {demcheck.opt(ad)}') != 'DIFF': same.append((md, ad))
    ctx.evaluations += d.n; d.close()
    ctx.ob('freshness', f'the secret returned by EncryptedHeader::generate never decrypts the encrypted metadata as an AES key ({len(ads)} authentication data values incl. every single byte)', not same, str(same[:3]))
    if same: vf.violation(ctx, f'the secret handed to the caller IS the metadata encryption key when the authentication data is {same[0][1]!r}', {'mode': 'HDRKEY', 'metadata_hex': same[0][0].hex(), 'authentication_data_hex': (same[0][1] or b'').hex(), 'config': 'default'})
    ctx.nontrivial = max(2, ctx.evaluations)
    ctx.rule = (f'{n} identical calls of each kind on one instance, {max(50, n // 20)} on each of 8 instances, 8 threads on a shared instance, and the alternative build; '
                'values compared pairwise per kind; the encrypted metadata is additionally decrypted with the RETURNED secret as AES key and must fail; distinct non-trivial = number of fresh values compared')
    ctx.trusted += ['harness/src/bin/concd.rs']
    ctx.assumptions += ['PARTIAL: the theorems show that every secret, nonce and identifier is an injective function of a draw private to its call; that the draws of the real CSPRNG (ChaCha, seeded from OS entropy) never repeat is assumed and only observed statistically']
    vf.finish(ctx)

def replay(ctx, path):
    rep = json.load(open(path)); vf.build_harness(ctx, (rep.get('config', 'default'),))
    r = vf.sh([vf.harness_bin('concd', rep.get('config', 'default'))] + rep['mode'].split(' '), timeout=6000)
    vals = {}
    for l in r.stdout.split('\n'):
        if l.startswith('VAL '): _, k, v = l.split(' '); vals.setdefault(k, []).append(v)
    bad = {k: len(v) - len(set(v)) for k, v in vals.items() if len(v) != len(set(v))}
    print(bad or 'all distinct'); return 1 if bad or 'FAIL' in r.stdout else 0
