"""Object-level checks on serialized objects collected along histories:
   - wire(): the extracted Coq readers/writers/length functions (Wire.v, WireSer.v) against the real serializers (C13)
   - tracing(): arithmetic checks on the parsed bytes (C17)"""
import os, glob, hashlib
import vf, hist

def collect(ctx, gen, n, config='default', limit=3000):
    os.makedirs(vf.ROOT + '/.tmp', exist_ok=True)
    base = f'{vf.ROOT}/.tmp/khex-{ctx.prop}-{config}'
    for f in glob.glob(base + '.*'): os.remove(f)
    H = [gen(ctx.rng) for _ in range(n)]
    vf.run_sharded(vf.harness_bin('kdriver', config), H, timeout=1800, env={'KHEX': base})
    lines = []; seen = set(); last_msk = None
    for f in sorted(glob.glob(base + '.*')):
        for l in open(f):
            l = l.strip()
            if not l: continue
            h = hashlib.md5(l.encode()).digest()
            # a master key is dropped only when it repeats the last one KEPT (after a restore an older master key comes
            # back and must be seen again: the public / user keys that follow are checked against the master key before them)
            if l.startswith('MSK'):
                if h == last_msk: continue
                last_msk = h; lines.append(l); continue
            if h in seen: continue
            seen.add(h); lines.append(l)
        os.remove(f)
    # keep the order (USK/MPK lines are checked against the last MSK before them) but cap the volume
    return lines[:limit]

def tracing(ctx, gen, n, config='default'):
    lines = collect(ctx, gen, n, config)
    out, r = vf.run_lines(vf.harness_bin('objtool', config), lines, timeout=1800)
    bad = [(l.split(' ')[0], o) for l, o in zip(lines, out) if not o.endswith('|ok')]
    ctx.evaluations += len(lines)
    ctx.ob('correspondence', f'[{config}] tracing relation on {len(lines)} serialized objects (sum a_i t_i = s for every recorded id and every user key, P_i = t_i G, tracing points of user/public keys = tracers, pk = sk (s G))',
           len(out) == len(lines) and not bad, '' if not bad else f'{len(bad)} objects fail, first: {bad[0][0]} {bad[0][1][-200:]}')
    if bad:
        vf.violation(ctx, 'tracing relation / registration violated on a serialized object: ' + bad[0][1].split('|')[-1], {'config': config, 'object_kind': bad[0][0], 'detail': bad[0][1][-400:]})
    ctx.count('tracing_objects', len(lines))

def wire(ctx, gen, n, config='default'):
    lines = collect(ctx, gen, n, config, limit=1500 if ctx.quick() else 20000)
    impl, _ = vf.run_lines(vf.harness_bin('objtool', config), lines, timeout=1800)
    groups = [[l] for l in lines]
    model = vf.run_sharded(vf.OCAML + '/wdriver', groups, args=[config], timeout=1800)
    bad = []
    for l, a, b in zip(lines, impl, model):
        b = (b or ['?'])[0]
        da = a.rsplit('|', 1)[0]; pb = b.split('|')
        if pb[0] != da or 'rt=1' not in pb or 'ln=1' not in pb: bad.append((l[:3], da[:200], b[:260]))
    ctx.evaluations += len(lines)
    ctx.ob('correspondence', f'Wire model [{config}]: extracted Coq readers parse {len(lines)} real serialized objects to the same content as the harness parser, the Coq writers reproduce the bytes exactly and the Coq length functions equal the byte count',
           len(impl) == len(lines) and not bad, '' if not bad else f'{len(bad)} objects differ, first: {bad[0]}')
    return lines
