"""C07 - encapsulations and ciphertexts are non-malleable."""
import json, subprocess, re, os
import vf

PT, CT = 32, 768


def coq_layout(ctx):
    """prints the hash-input layout of the Coq model with vm_compute and writes it as a file for the reference decapsulator"""
    os.makedirs(vf.ROOT + '/.tmp', exist_ok=True)
    p = vf.ROOT + '/.tmp/vmlayout.v'
    open(p, 'w').write('From Coq Require Import List String.\nFrom CC Require Import CryptoKemBase.\nEval vm_compute in hash_layout.\n')
    r = vf.sh(f'timeout 300 coqc -noglob -R {vf.COQ} CC {p}', cwd=vf.ROOT + '/.tmp')
    txt = r.stdout.replace('\n', ' ')
    lay = {}
    for m in re.finditer(r'\("([A-Za-z_]+)"(?:%string)?,\s*(.*?)\)\s*(?:::|;|\])', txt):
        lay[m.group(1)] = re.findall(r'"([^"]+)"', m.group(2))
    ok = r.returncode == 0 and all(k in lay for k in ('T_classic', 'T_hybrid', 'U', 'H_classic', 'H_hybrid', 'J', 'G'))
    ctx.ob('correspondence', 'hash-input layout printed from the Coq model (CryptoKemBase.hash_layout, vm_compute)', ok, str(lay) + r.stderr[-300:])
    path = vf.ROOT + '/.tmp/layout.txt'
    open(path, 'w').write(''.join(f'{k}: {" ".join(v)}\n' for k, v in lay.items()))
    return path, lay


def leb(v):
    o = bytearray()
    while True:
        b = v & 0x7f; v >>= 7
        if v: o.append(b | 0x80)
        else: o.append(b); return bytes(o)


class Enc:
    def __init__(s, b, pt=None, ct=None):
        PT_, CT_ = pt or PT, ct or CT
        return s._parse(b, PT_, CT_)
    def _parse(s, b, PT, CT):
        s.tag = b[:16]; p = 16; n = b[p]; p += 1
        s.c = [b[p + PT * i:p + PT * (i + 1)] for i in range(n)]; p += PT * n
        s.hyb = b[p]; p += 1; m = b[p]; p += 1; s.es = []
        for _ in range(m):
            if s.hyb: e = b[p:p + CT]; p += CT
            else: e = b''
            s.es.append((e, b[p:p + 32])); p += 32
        assert p == len(b)
    def build(s, hyb=None):
        h = s.hyb if hyb is None else hyb
        o = bytearray(s.tag) + leb(len(s.c))
        for c in s.c: o += c
        o += bytes([h]) + leb(len(s.es))
        for e, f in s.es: o += (e if h else b'') + f
        return bytes(o)
    def copy(s):
        x = Enc.__new__(Enc); x.tag = s.tag; x.c = list(s.c); x.hyb = s.hyb; x.es = list(s.es); return x


def structural(e, others):
    n = len(e.es)
    for i in range(n):
        for j in range(i + 1, n):
            t = e.copy(); t.es[i], t.es[j] = t.es[j], t.es[i]; yield 'entries reordered', t.build()
        t = e.copy(); del t.es[i]; yield 'entry dropped', t.build()
        t = e.copy(); t.es.append(e.es[i]); yield 'entry duplicated', t.build()
        if e.hyb and n > 1:
            j = (i + 1) % n
            t = e.copy(); t.es[i] = (e.es[j][0], e.es[i][1]); yield 'ML-KEM ciphertext of one entry given to another', t.build()
            t = e.copy(); t.es[i] = (e.es[i][0], e.es[j][1]); yield 'masked seed of one entry given to another', t.build()
    if len(e.c) > 1:
        t = e.copy(); t.c = t.c[::-1]; yield 'traps reordered', t.build()
        t = e.copy(); t.c = t.c[:-1]; yield 'trap dropped', t.build()
    t = e.copy(); t.c = t.c + [t.c[0]]; yield 'trap duplicated', t.build()
    if not e.hyb: pass
    else:
        t = e.copy(); yield 'flavour flag flipped (hybridized read as classic)', t.build(hyb=0)
    for o in others:
        t = e.copy(); t.tag = o.tag; yield 'tag of another encapsulation', t.build()
        t = e.copy(); t.c = list(o.c); yield 'traps of another encapsulation', t.build()
        if o.hyb == e.hyb:
            t = e.copy(); t.es = list(o.es); yield 'entries of another encapsulation', t.build()
            t = e.copy(); t.es = t.es + [o.es[0]]; yield 'entry of another encapsulation appended', t.build()
            t = e.copy(); t.es[0] = o.es[0]; yield 'first entry replaced by one of another encapsulation', t.build()
        t = o.copy(); t.tag = e.tag; yield 'everything of another encapsulation under this tag', t.build()


def run(ctx):
    ok = vf.build_harness(ctx, ('default', 'alt'), optional=('alt',)); ok = vf.build_coq(ctx) and ok
    vf.forbidden_scan(ctx); vf.proof_obligations(ctx)
    if ctx.tier == 'thorough': vf.coqchk(ctx, 'C07')
    if not ok: vf.finish(ctx)
    layout, lay = coq_layout(ctx)
    n = 0; hist = {}; muts = []
    # the encapsulations are shared out over several reference-decapsulator processes (each with its own fresh keys)
    import concurrent.futures
    NSH = 4
    jobs = [(cfg, sh) for cfg in ('default', 'alt') if cfg not in ctx.unbuilt for sh in range(NSH)]
    with concurrent.futures.ThreadPoolExecutor(len(jobs)) as ex:
        for (cfg, sh), (k, h, muts_cfg) in zip(jobs, ex.map(lambda j: campaign(ctx, j[0], layout, j[1], NSH), jobs)):
            n += k
            for a, b in h.items(): hist[a] = hist.get(a, 0) + b
            if cfg == 'default' and muts_cfg and not muts: muts = muts_cfg
    # DEM layer: PKE ciphertexts and encrypted header metadata
    import demcheck
    demcheck.campaign(ctx, malleability_only=True)
    ctx.evaluations += n; ctx.traces += n
    ctx.hist.update(hist); ctx.nontrivial = set(ctx.hist)
    ctx.samples = [f'{w}: {m.hex()[:80]}...' for w, m in muts[:2]] + [f'{w}: {m.hex()[:80]}...' for w, m in muts[-3:-2]]
    ctx.rule = ('classic encapsulations with 1/2/3 targets and hybridized ones with 1/2 targets, mixed; every byte position (one bit flip, 0x00, 0xFF; all 8 bits in the thorough tier), every transposition / drop / duplication of '
                'entries and traps, cross-encapsulation swaps of tag, traps and entries, flavour flag flip, truncation and extension; each mutant offered to two authorized keys and one unauthorized key, each time right after the '
                'same instance opened the original with that key; the same (sub-sampled byte positions) on the alternative build (p-256 + ML-KEM-768); '
                'plus byte mutations of PKE ciphertexts and encrypted metadata; distinct non-trivial = distinct (mutation class, outcome)')
    ctx.trusted += ['harness/src/bin/mutd.rs (reference decapsulator = generic interpreter of the Coq layout table over SHA3 / Ristretto / ML-KEM from the crates the repo uses)', 'checks/c07.py (XEnc parser/builder, mutators)']
    ctx.assumptions += ['hashes are idealised as injective functions on typed symbol lists (Section hypotheses H_inj, Jtag_inj); xor facts unmask_mask / unmask_mask_only; ML-KEM correctness and robustness',
                        'reference decapsulator only in the default build (curve25519 + ML-KEM-512); on the alternative build the oracle is the property itself (no mutant may be opened)']
    vf.finish(ctx)


def campaign(ctx, cfg, layout, shard=0, nshards=1):
    PT, CT = (32, 768) if cfg == 'default' else (33, 1088)
    alt = cfg != 'default'
    p = subprocess.Popen([vf.harness_bin('mutd', cfg), layout], stdin=subprocess.PIPE, stdout=subprocess.PIPE, text=True)
    p.stdin.write('GEN\n'); p.stdin.flush()
    encs = []; usks = []
    while True:
        l = p.stdout.readline().strip()
        if l == 'END' or not l: break
        f = l.split(' ')
        if f[0] == 'ENC': encs.append((bytes.fromhex(f[1]), f[2]))
        else: usks.append(f[1])
    def ask(e, u):
        # a harness that died (abort on an allocation request, stack overflow) or stopped answering counts as a panic on this input
        try:
            p.stdin.write(f'TRY {e.hex()} {u}\n'); p.stdin.flush()
            r = p.stdout.readline().strip().split(' ')
        except (BrokenPipeError, OSError): r = ['']
        if len(r) < 2: return 'PANIC(process died)', 'DIED'
        return r[0][5:], r[1][4:]
    # authorization matrix on the unmodified encapsulations (also: reference == implementation, secret == recorded)
    auth = {}; dis = []; n = 0
    for ei, (e, s) in enumerate(encs):
        for ui, u in enumerate(usks):
            im, rf = ask(e, u); n += 1
            if im != rf and not alt: dis.append(('unmodified', ei, ui, im, rf))
            if im.startswith('SOME') and im[5:] != s:
                vf.violation(ctx, 'decapsulation of an unmodified encapsulation returned a secret different from the encapsulated one', {'config': cfg, 'enc_hex': e.hex(), 'usk_hex': u, 'impl': im, 'expected': s})
            auth[(ei, ui)] = im.startswith('SOME')
    if not alt and shard == 0:
        # an encapsulation FORGED from public data (neutral traps, chosen seed, hashes recomputed): consistent in every respect
        # except the re-encryption check of the traps; no key may open it
        p.stdin.write(f'FORGE {len(Enc(encs[0][0], PT, CT).c)}\n'); p.stdin.flush()
        fr = p.stdout.readline().strip().split(' ')
        if len(fr) == 3 and fr[1] != '-':
            fb = bytes.fromhex(fr[1])
            for ui, u in enumerate(usks):
                im, rf = ask(fb, u); n += 1
                if im.startswith('SOME') or im == 'PANIC':
                    vf.violation(ctx, f'an encapsulation forged from public data only (neutral traps, hashes recomputed) was opened: {im[:40]}', {'config': cfg, 'mutation': 'forged from public data', 'original_enc_hex': encs[0][0].hex(), 'mutated_enc_hex': fr[1], 'usk_hex': u, 'impl': im})
                    break
    parsed = [Enc(e, PT, CT) for e, _ in encs]
    for pe, (e, _) in zip(parsed, encs): assert pe.build() == e
    hist = {}; viol = []; muts = []
    for ei, (e, s) in enumerate(encs):
        if ei % nshards != shard: continue
        if viol and viol[-1][4].startswith('PANIC(process'): break      # the harness died on the last mutant: nothing more can be asked
        au = [ui for ui in range(len(usks)) if auth[(ei, ui)]][:2]; un = [ui for ui in range(len(usks)) if not auth[(ei, ui)]][:1]
        users = au + un
        muts = []
        big = len(e) > 400
        for i in range(len(e)):
            if ctx.quick() and big and i > 200 and i % 9: continue
            if alt and i > 60 and i % (23 if ctx.quick() else 3): continue
            vals = [e[i] ^ (1 << (i % 8))] + ([] if (ctx.quick() and big) else [0x00, 0xff]) + ([e[i] ^ (1 << b) for b in range(8)] if not ctx.quick() else [])
            # encoding-tag values: a point or flag byte replaced by the other tags of its encoding family (SEC1: 0x02/0x03
            # compressed, 0x04 uncompressed, 0x05 compact, 0x06/0x07 hybrid; 0x00 identity) - a decoder that accepts a second
            # encoding of the same value makes the serialized form malleable although the parsed object is unchanged
            if i < 17 + PT * len(parsed[ei].c) + 2: vals += [0x04, 0x05, e[i] ^ 0x06, e[i] ^ 0x07, e[i] ^ 0x01]
            for v in dict.fromkeys(vals):
                if v != e[i]: muts.append(('byte %s' % ('in tag' if i < 16 else 'in traps' if i < 17 + PT * len(parsed[ei].c) else 'in entries'), e[:i] + bytes([v]) + e[i + 1:]))
        others = [parsed[j] for j in range(len(parsed)) if j != ei][:3]
        muts += list(structural(parsed[ei], others))
        muts += [('truncated', e[:-1]), ('extended', e + b'\x00')]
        # count fields (number of traps, number of shares) replaced by LONG encodings of boundary values
        def leb(v):
            o = bytearray()
            while True:
                b = v & 0x7f; v >>= 7
                if v: o.append(b | 0x80)
                else: o.append(b); return bytes(o)
        cpos = 16 + 1 + PT * len(parsed[ei].c) + 1
        for (fld, pos) in (('trap count', 16), ('share count', cpos)):
            if pos < len(e) and e[pos] < 128:
                for v in (2 ** 64 - 1, 2 ** 63, 2 ** 62, 2 ** 56, 2 ** 40, 2 ** 32, 2 ** 31 + 1, 300, e[pos] + 1):
                    muts.append((f'{fld} set to {v}', e[:pos] + leb(v) + e[pos + 1:]))
        for what, m in muts:
            if m == e: continue
            for ui in users:
                # the same instance has just opened the ORIGINAL with this key: a decapsulation whose answer depends on
                # what the instance opened before (memo, cache, early-abort on the tag alone) is exercised as well
                if ui in au:
                    im0, _ = ask(e, usks[ui]); n += 1
                    if im0 != 'SOME:' + s: vf.violation(ctx, 'decapsulation of an unmodified encapsulation did not return the encapsulated secret', {'config': cfg, 'enc_hex': e.hex(), 'usk_hex': usks[ui], 'impl': im0, 'expected': s})
                im, rf = ask(m, usks[ui]); n += 1
                cls = im.split(':')[0]
                hist[f'{what} -> {cls}'] = hist.get(f'{what} -> {cls}', 0) + 1
                if im != rf and rf != 'DIED' and not alt and not (im == 'UNPARSABLE' or rf == 'UNPARSABLE'): dis.append((what, ei, ui, im, rf))
                if cls == 'SOME' or cls.startswith('PANIC'):
                    viol.append((what, ei, ui, m, im))
                    if rf == 'DIED': break
            if viol and viol[-1][4].startswith('PANIC(process'): break
    p.stdin.close(); p.wait()
    if not alt: ctx.ob('correspondence', f'real decapsulation == model-driven reference decapsulator (hash layout from the Coq model, primitives from the same crates) on {n} (encapsulation, key) pairs',
           not dis, '' if not dis else f'{len(dis)} disagreements, first: {dis[0]}')
    if viol:
        what, ei, ui, m, im = viol[0]
        vf.violation(ctx, f'modified encapsulation ({what}) was opened: {im[:40]}', {'config': cfg, 'mutation': what, 'original_enc_hex': encs[ei][0].hex(), 'mutated_enc_hex': m.hex(), 'usk_hex': usks[ui], 'impl': im, 'violations_total': len(viol)})
    return n, hist, muts


def replay(ctx, path):
    rep = json.load(open(path))
    if 'big' in rep:
        import demcheck
        vf.build_harness(ctx); d = demcheck.Demd(); o = d.ask(f"PKEBIG {rep['big']}"); d.close()
        print(o.replace('_', ' ')[:600]); return 0 if o.split(' ')[-1] == '-' else 1
    vf.build_harness(ctx, (rep.get('config', 'default'),)); vf.build_coq(ctx)
    layout, _ = coq_layout(ctx)
    r = subprocess.run([vf.harness_bin('mutd', rep.get('config', 'default')), layout], input=f"TRY {rep['original_enc_hex']} {rep['usk_hex']}\nTRY {rep['mutated_enc_hex']} {rep['usk_hex']}\n", capture_output=True, text=True)
    print(r.stdout)      # first line: the original opened by the same instance; second line: the mutant
    return 1 if 'impl=SOME' in r.stdout.strip().split('\n')[-1] else 0
