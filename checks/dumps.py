"""Parsing of the canonical dump lines (implementation side) for dump-based oracles."""

def leb_ids(hexs):
    b = bytes.fromhex(hexs); ids = []; i = 0
    while i < len(b):
        r = 0; s = 0
        while True:
            x = b[i]; i += 1; r |= (x & 0x7f) << s; s += 7
            if not x & 0x80: break
        ids.append(r)
    return ids

def fields(d):
    head, _, k = d.partition(' K=')
    f = {}
    for t in head.split(' ')[1:]:
        if '=' in t: a, b = t.split('=', 1); f[a] = b
    items = {}
    for it in (k.split(' ') if k else []):
        if '=' in it: r, v = it.split('=', 1); items[r[1:]] = v.split(';') if v else []
    return head.split(' ')[0], f, items

def structure(sfield):
    """S=dim:kind:name/id/hyb/enc,...;...  -> {dimhex: (kind, [(namehex, id, hyb, enc)])}"""
    out = {}
    if not sfield: return out
    for d in sfield.split(';'):
        if not d: continue
        name, kind, attrs = d.split(':', 2)
        l = []
        for a in attrs.split(','):
            if a:
                n, i, h, e = a.split('/'); l.append((n, int(i), h == '1', e == '1'))
        out[name] = (int(kind), l)
    return out
