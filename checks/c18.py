"""C18 - re-encapsulation with the master key preserves the audience."""
import histcheck as hc, profiles, vf

def trigger(scr):
    ops = [l.split(' ')[0] for l in scr]
    if 'RC' not in ops: return False
    i = ops.index('RC')
    return 'DE' in ops[i:] and any(o in ops[:i] for o in ('RK', 'PR', 'DS', 'DT'))

def gen(rng):
    if rng.random() < 0.1: return profiles.shrink_scenario(rng)
    scr = profiles.C18(rng)
    # decapsulate every re-encapsulation with every key, before and after a refresh
    n = sum(1 for l in scr if l.split(' ')[0] in ('EN', 'RC'))
    return scr + [f'RF {k} {rng.choice("01")}' for k in range(3)] + [f'DE {k} {e}' for k in range(4) for e in range(min(n, 10))]

def run(ctx):
    if not hc.ensure_builds(ctx): hc.finish(ctx, 'builds failed')
    n = 500 if ctx.quick() else 12000
    H, impl, model, dis, hits = hc.run_profile(ctx, gen, n, trigger=trigger, claims=lambda op, a, b: op in ('RC', 'DE'))
    if not hits:
        # several threads re-encapsulating the SAME encapsulation with one shared instance at the same moment
        import conc
        t, k = (8, 6) if ctx.quick() else (16, 60)
        vals, dup, fails, done = conc.run(ctx, ['recaps', t, k])
        tot = sum(len(v) for v in vals.values()); ctx.evaluations += tot
        ctx.ob('freshness', f'concd recaps {t} {k}: {t} threads x {k} concurrent re-encapsulations of one encapsulation on one instance: {tot} secrets / tags / traps pairwise distinct, audience checked on every result', not dup and not fails and len(done) == t, (str(dup)[:300] + ' '.join(fails[:2]))[:600])
        if fails or len(done) != t: vf.violation(ctx, 'concurrent re-encapsulation: ' + (fails[0] if fails else f'only {len(done)} of {t} threads finished'), {'concd': f'recaps {t} {k}'})
        if dup: vf.violation(ctx, f'two concurrent re-encapsulations returned the same {sorted(dup)[0]}', {'concd': f'recaps {t} {k}', 'duplicates': {a: b[0] for a, b in dup.items()}})
    hc.vm_crosscheck(ctx, H, model)
    hc.finish(ctx, f'{n} random histories: multi-target encapsulations under any earlier public key, then rekeys, prunes, disables, deletions, then recaps under current and older public keys, '
              'then decapsulation of the result by every key before and after refresh; non-trivial = a recaps preceded by a rekey/prune/disable/deletion and followed by decapsulations')

def replay(ctx, path):
    import json
    rep = json.load(open(path))
    if 'concd' not in rep: return hc.replay(ctx, path)
    import conc
    vf.build_harness(ctx)
    vals, dup, fails, done = conc.run(ctx, rep['concd'].split(' '))
    print('\n'.join(fails[:5])); print('duplicates:', dup)
    return 1 if (fails or dup) else 0
