"""C18 - re-encapsulation with the master key preserves the audience."""
import histcheck as hc, profiles, vf

def trigger(scr):
    ops = [l.split(' ')[0] for l in scr]
    if 'RC' not in ops: return False
    i = ops.index('RC')
    return 'DE' in ops[i:] and any(o in ops[:i] for o in ('RK', 'PR', 'DS', 'DT'))

def gen(rng):
    scr = profiles.C18(rng)
    # decapsulate every re-encapsulation with every key, before and after a refresh
    n = sum(1 for l in scr if l.split(' ')[0] in ('EN', 'RC'))
    return scr + [f'RF {k} {rng.choice("01")}' for k in range(3)] + [f'DE {k} {e}' for k in range(4) for e in range(min(n, 10))]

def run(ctx):
    if not hc.ensure_builds(ctx): hc.finish(ctx, 'builds failed')
    n = 500 if ctx.quick() else 12000
    H, impl, model, dis, hits = hc.run_profile(ctx, gen, n, trigger=trigger, claims=lambda op, a, b: op in ('RC', 'DE'))
    hc.vm_crosscheck(ctx, H, model)
    hc.finish(ctx, f'{n} random histories: multi-target encapsulations under any earlier public key, then rekeys, prunes, disables, deletions, then recaps under current and older public keys, '
              'then decapsulation of the result by every key before and after refresh; non-trivial = a recaps preceded by a rekey/prune/disable/deletion and followed by decapsulations')

replay = hc.replay
