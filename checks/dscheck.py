"""Data-structure layer (Dict / RevisionMap, exposed by the cfg-guarded hook): real structures vs the extracted Coq model
DictModel.v, plus an independent reference (ordered association list / dict of lists in Python) as implementation-side oracle."""
import vf

KEYS = list('abcdef')

def gen_script(rng, n):
    out = ['NEW']
    for _ in range(n):
        r = rng.random(); k = rng.choice(KEYS)
        if r < 0.35: out.append(f'I {k} {rng.randrange(100)}')
        elif r < 0.6: out.append(f'R {k}')
        elif r < 0.75: out.append(f'U {k} {rng.choice(KEYS)}')
        else: out.append(f'G {k}')
    out.append('MNEW')
    for _ in range(n // 2):
        r = rng.random(); k = rng.choice(KEYS[:3])
        if r < 0.5: out.append(f'MI {k} {rng.randrange(100)}')
        elif r < 0.7: out.append(f'MK {k} {rng.choice([1, 1, 1, 2, 3])}')
        elif r < 0.8: out.append(f'MR {k}')
        else: out.append(f'ML {k}')
    return out

def reference(script):
    """ordered association list semantics (what `Dict` is documented to be), evaluated independently"""
    out = []; d = []; m = {}
    def o(v): return 'none' if v is None else f'some:{v}'
    for l in script:
        f = l.split(' ')
        if f[0] == 'NEW': d = []; r = 'ok'
        elif f[0] == 'I':
            old = next((v for k, v in d if k == f[1]), None)
            if old is None: d.append((f[1], int(f[2])))
            else: d = [(k, int(f[2]) if k == f[1] else v) for k, v in d]
            r = o(old)
        elif f[0] == 'R':
            old = next((v for k, v in d if k == f[1]), None); d = [(k, v) for k, v in d if k != f[1]]; r = o(old)
        elif f[0] == 'U':
            ks = [k for k, _ in d]
            if f[1] in ks and f[2] not in ks: d = [(f[2] if k == f[1] else k, v) for k, v in d]; r = 'ok'
            else: r = 'err'
        elif f[0] == 'G':
            v = next((v for k, v in d if k == f[1]), None); r = f'{o(v)}/{int(v is not None)}'
        elif f[0] == 'MNEW': m = {}; r = 'ok'
        elif f[0] == 'MI': m.setdefault(f[1], []).insert(0, int(f[2])); r = 'ok'
        elif f[0] == 'MK':
            n = int(f[2])
            if f[1] in m and n <= len(m[f[1]]): rem = m[f[1]][n:]; m[f[1]] = m[f[1]][:n]; r = 'some:' + ';'.join(map(str, rem))
            else: r = 'none'
        elif f[0] == 'MR': r = ('some:' + ';'.join(map(str, m.pop(f[1])))) if f[1] in m else 'none'
        elif f[0] == 'ML': r = o(m[f[1]][0]) if m.get(f[1]) else 'none'
        if f[0].startswith('M'):
            items = sorted(f'{k}=[{";".join(map(str, ch))}]' for k, ch in m.items())
            out.append(f'{r}|{len(m)}|{sum(len(c) for c in m.values())}|{",".join(items)}')
        else: out.append(f'{r}|{len(d)}|{",".join(f"{k}={v}" for k, v in d)}')
    return out

def run(ctx, n_scripts):
    scripts = [gen_script(ctx.rng, ctx.rng.randint(5, 40)) for _ in range(n_scripts)]
    impl = vf.run_sharded(vf.harness_bin('ddriver'), scripts, timeout=600)
    model = vf.run_sharded(vf.OCAML + '/ddriver', scripts, timeout=600)
    dis = [(s, a, b) for s, a, b in zip(scripts, impl, model) if a != b]
    ctx.evaluations += sum(len(s) for s in scripts)
    ctx.ob('correspondence', f'data_struct::Dict / RevisionMap (through the cfg hook) == extracted DictModel.v (result, len, full ordered listing after every operation) on {len(scripts)} operation scripts',
           not dis, '' if not dis else f'{len(dis)} scripts differ, first: {" ; ".join(dis[0][0])[:300]} | impl={dis[0][1]} | model={dis[0][2]}'[:1500])
    for s, a in zip(scripts, impl):
        ref = reference(s)
        if a != ref:
            i = next(i for i, (x, y) in enumerate(zip(a or [], ref)) if x != y) if a and len(a) == len(ref) else 0
            small = vf.ddmin(s[:i + 1], lambda c: (vf.run_lines(vf.harness_bin('ddriver'), c)[0]) != reference(c))
            got = vf.run_lines(vf.harness_bin('ddriver'), small)[0]
            vf.violation(ctx, f'the ordered map behind hierarchical dimensions does not behave as an ordered association list: after "{small[-1]}" expected {reference(small)[-1]!r}, got {got[-1] if got else None!r}',
                         {'dict_script': small, 'expected': reference(small), 'impl': got})
            break
