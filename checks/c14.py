"""C14 - deserializing or using untrusted bytes never crashes, hangs or over-allocates."""
import json, subprocess, concurrent.futures, signal
import vf


def leb(v):
    o = bytearray()
    while True:
        b = v & 0x7f; v >>= 7
        if v: o.append(b | 0x80)
        else: o.append(b); return bytes(o)


BOUNDARY = [0, 1, 2, 0x7f, 0x80, 0x3fff, 0x4000, 2**32 - 1, 2**32, 2**40, 2**55, 2**62, 2**63 - 1, 2**63, 2**64 - 1]
OVERLONG = [bytes([0x80] * 9 + [0x01]), bytes([0xff] * 9 + [0x7f]), bytes([0xff] * 10 + [0x01]), bytes([0x80] * 12), bytes([0x80, 0x80, 0x00])]


def run_worker(lines, config='default', objfile=None):
    """runs the isolated worker on the lines, restarting it after a crash; returns one classification per line"""
    res = [None] * len(lines); start = 0
    while start < len(lines):
        p = subprocess.run([vf.harness_bin('worker', config), 'run'] + ([objfile] if objfile else []), input='\n'.join(lines[start:]) + '\n', capture_output=True, text=True, timeout=3600)
        last_begin = None; done = 0
        for l in p.stdout.split('\n'):
            if l.startswith('BEGIN '): last_begin = int(l.split(' ')[1])
            elif l.startswith('END '):
                f = l.split(' '); k = int(f[1]); res[start + k] = ' '.join(f[2:]); done = k + 1; last_begin = None
        if last_begin is None:
            if done == 0 and p.returncode != 0: res[start] = f'crash rc={p.returncode} {p.stderr[-100:]}'; start += 1
            else: start += done if done else len(lines)
            if p.returncode == 0: break
            continue
        k = last_begin
        if 'OVERALLOC' in p.stderr: cls = 'overalloc ' + p.stderr.strip().split('\n')[-1]
        elif p.returncode == -signal.SIGALRM: cls = 'hang (no answer within 5 s)'
        elif p.returncode == -signal.SIGABRT: cls = 'abort ' + p.stderr.strip()[-120:]
        elif p.returncode == -signal.SIGSEGV: cls = 'segfault'
        else: cls = f'crash rc={p.returncode} {p.stderr.strip()[-120:]}'
        res[start + k] = cls
        start = start + k + 1
    return res


def mutants(kind, b, rng, quick):
    out = []
    n = len(b)
    # every truncation (every length for small objects; every length up to 300 and a stride beyond for large ones)
    lens = range(n) if n <= 1200 or not quick else list(range(0, 300)) + list(range(300, n, 7)) + list(range(max(300, n - 120), n))
    for l in lens: out.append(('truncation', b[:l]))
    # every single-byte corruption
    pos = range(n) if n <= 1200 or not quick else list(range(0, 400)) + list(range(400, n, 5))
    for i in pos:
        v = [b[i] ^ 1, 0xff, 0x00, 0x80][i % 4] if quick else None
        for nv in ([v] if quick else [b[i] ^ 1, b[i] ^ 0x80, 0xff, 0x00]):
            if nv != b[i]: out.append(('byte corruption', b[:i] + bytes([nv]) + b[i + 1:]))
    # every byte position treated as a count/length field and replaced by boundary values and over-long LEB128
    cpos = range(min(n, 260)) if quick else range(n)
    for i in cpos:
        if quick and i > 60 and i % 3: continue
        for v in BOUNDARY: out.append(('count/length field', b[:i] + leb(v) + b[i + 1:]))
        for o in OVERLONG: out.append(('over-long LEB128', b[:i] + o + b[i + 1:]))
    # a trailing length-prefixed field re-framed consistently: position i read as its length, set to v, exactly v bytes kept
    for i in range(max(0, n - 400), n):
        for v in range(0, 18):
            if i + 1 + v <= n: out.append(('trailing field re-framed', b[:i] + leb(v) + b[i + 1:i + 1 + v]))
    # a window of the size of a group element / scalar overwritten by the special encodings (all zero = identity point or
    # zero scalar, all 0xFF = invalid, 0x02||0.. / 0x03||0.. = SEC1 x = 0): the value PARSES in some builds and is then used
    wins = list(range(0, min(n, 140))) + list(range(140, n, 11 if quick else 3))
    for w in (32, 33):
        for i in wins:
            if i + w > n: continue
            out.append(('element window zeroed', b[:i] + bytes(w) + b[i + w:]))
            if i % 4 == 0 or not quick:
                out.append(('element window 0xFF', b[:i] + b'\xff' * w + b[i + w:]))
                out.append(('element window tag+zero', b[:i] + bytes([2 + (i & 1)]) + bytes(w - 1) + b[i + w:]))
    # two bytes replaced by the name separator "::" (a name containing it, an emptied component) and by two spaces: names are
    # not validated on read, every accessor must cope
    for i in list(range(0, min(n - 1, 160))) + list(range(max(160, n - 300), n - 1)):
        out.append(('two bytes replaced by "::"', b[:i] + b'::' + b[i + 2:]))
        if i % 3 == 0: out.append(('two bytes replaced by spaces', b[:i] + b'  ' + b[i + 2:]))
    # trailing garbage and random strings
    out.append(('trailing byte', b + b'\x00')); out.append(('trailing bytes', b + bytes(40)))
    for _ in range(60 if quick else 2000):
        out.append(('random bytes', bytes(rng.randrange(256) for _ in range(rng.randint(0, 80)))))
    return [(kind, what, m) for what, m in out]


def structural(kind, b, others, cfg):
    """consistent re-framings: an element of a list removed or repeated WITH its count adjusted (the object still parses),
    chains emptied, entries and traps re-arranged - what a byte-level mutation cannot reach"""
    import c07, c08
    sz = vf.CONFIGS[cfg]['sizes']
    c08.SK, c08.PT, c08.DK = sz['SK'], sz['PT'], sz['DK']; c07.PT, c07.CT = sz['PT'], sz['CT']
    out = []
    try:
        if kind == 'USK':
            k = c08.K(b)
            if k.build() != b: return []
            def emit(what, t): out.append((kind, 'structural: ' + what, t.build()))
            for i in range(len(k.ps) + 1):
                t = k.copy(); t.ps = t.ps[:i]; emit(f'tracing points cut to {i}', t)
            t = k.copy(); t.ps = t.ps + t.ps[:1]; emit('tracing point repeated', t)
            for i in range(len(k.id) + 1):
                t = k.copy(); t.id = t.id[:i]; emit(f'markers cut to {i}', t)
            t = k.copy(); t.id = t.id + t.id[:1]; emit('marker repeated', t)
            t = k.copy(); t.id = []; t.ps = []; emit('no marker, no point', t)
            for i in range(len(k.chains)):
                t = k.copy(); del t.chains[i]; emit('chain dropped', t)
                t = k.copy(); t.chains[i] = (t.chains[i][0], []); emit('chain emptied', t)
                t = k.copy(); t.chains.append(t.chains[i]); emit('chain repeated', t)
                t = k.copy(); t.chains[i] = (t.chains[i][0], t.chains[i][1] + t.chains[i][1][:1]); emit('secret repeated', t)
                if len(k.chains[i][1]) > 1: t = k.copy(); t.chains[i] = (t.chains[i][0], t.chains[i][1][1:]); emit('newest secret dropped', t)
            t = k.copy(); t.chains = []; emit('no chain', t)
            t = k.copy(); t.chains = [(r, []) for r, _ in t.chains]; emit('all chains emptied', t)
            t = k.copy(); t.sig = b''; emit('signature stripped', t)
            keep = list(out)
            for _, w, m in keep:                   # the same without signature (a key read from bytes need not carry one)
                kk = c08.K(m); kk.sig = b''; out.append((kind, w + ', unsigned', kk.build()))
        elif kind == 'ENC':
            e = c07.Enc(b)
            if e.build() != b: return []
            oth = []
            for o in others:
                try: oth.append(c07.Enc(o))
                except Exception: pass
            for what, m in c07.structural(e, oth): out.append((kind, 'structural: ' + what, m))
            t = e.copy(); t.c = []; out.append((kind, 'structural: no trap', t.build()))
            t = e.copy(); t.es = []; out.append((kind, 'structural: no entry', t.build()))
            t = e.copy(); t.c = t.c + t.c; out.append((kind, 'structural: traps doubled', t.build()))
    except Exception:
        return out
    return out


def scaling(ctx):
    """'time and memory proportional to the input': well-formed but very large lists (user key with N rights, encapsulation
    with N entries, structure with N attributes) parsed at two sizes N and 4N; the larger one may take about 4 times longer,
    not 16 (a duplicate scan, a re-sort or a re-allocation per element makes parsing quadratic although every small input
    is handled instantly). Parse time is taken from the worker itself (us=), best of three."""
    import c07, c08
    gen = subprocess.run([vf.harness_bin('worker'), 'gen'], capture_output=True, text=True).stdout.strip().split('\n')
    objs = [(l.split(' ')[0], bytes.fromhex(l.split(' ')[1])) for l in gen]
    sz = vf.CONFIGS['default']['sizes']; c08.SK, c08.PT, c08.DK = sz['SK'], sz['PT'], sz['DK']; c07.PT, c07.CT = sz['PT'], sz['CT']
    usk = c08.K(next(b for k, b in objs if k == 'USK')); enc = c07.Enc(next(b for k, b in objs if k == 'ENC'))
    sk = usk.chains[0][1][0]
    def big_usk(n):
        t = usk.copy(); t.chains = [(i.to_bytes(4, 'big'), [sk]) for i in range(n)]; return t.build()
    def big_enc(n):
        t = enc.copy(); t.es = [(b'', (i.to_bytes(4, 'big') * 8)) for i in range(n)]; t.hyb = 0; return t.build()
    def big_st(n):
        o = bytearray(leb(1) + leb(1) + leb(1) + b'D' + leb(0) + leb(n))
        for i in range(n): o += leb(4) + i.to_bytes(4, 'big').hex()[:4].encode() + leb(i) + leb(0) + leb(0)
        return bytes(o + leb(n))
    N1, N2 = (6000, 24000)
    res = []; bad = []
    for kind, mk in (('PUSK', big_usk), ('PENC', big_enc), ('PST', big_st)):
        ts = {}
        for n in (N1, N2):
            line = f'{kind} {mk(n).hex()}'; best = None; cls = None
            for _ in range(3):
                r = run_worker([line])[0] or 'no answer'
                f = dict(t.split('=') for t in r.split(' ')[1:] if '=' in t); cls = r.split(' ')[0]
                if 'us' in f: best = int(f['us']) if best is None else min(best, int(f['us']))
            ts[n] = (best, cls)
        (t1, c1), (t2, c2) = ts[N1], ts[N2]
        res.append(f'{kind}: {N1} elements {t1} us ({c1}), {N2} elements {t2} us ({c2})')
        if c1 not in ('ok', 'err') or c2 not in ('ok', 'err'): bad.append((kind, f'worker did not answer normally: {c1} / {c2}'))
        elif t1 is not None and t2 is not None and t2 > 150_000 and t2 > 10 * max(t1, 2000): bad.append((kind, f'parse time grows faster than the input: {N1} elements in {t1} us, {N2} elements in {t2} us'))
    ctx.evaluations += 18
    ctx.cov['scaling'] = res
    ctx.ob('correspondence', f'parse time proportional to the input on large well-formed lists ({N1} vs {N2} elements: user-key rights, encapsulation entries, structure attributes): ' + '; '.join(res), not bad, str(bad))
    if bad: vf.violation(ctx, f'{bad[0][0][1:]} deserialization: {bad[0][1]}', {'scaling': True, 'kind': bad[0][0], 'sizes': [N1, N2], 'measurements': res})


def run(ctx):
    ok = vf.build_harness(ctx, ('default', 'alt'), optional=('alt',)); ok = vf.build_coq(ctx) and ok
    vf.forbidden_scan(ctx); vf.proof_obligations(ctx)
    if ctx.tier == 'thorough': vf.coqchk(ctx, 'C14')
    if not ok: vf.finish(ctx)
    hist = {}; total = 0; samples = []
    corpus = []
    cp = vf.ROOT + '/corpus/C14.txt'
    if vf.os.path.exists(cp): corpus = [l.strip() for l in open(cp) if l.strip()]
    for cfg in ('default', 'alt'):
        if cfg in ctx.unbuilt: continue
        gen = subprocess.run([vf.harness_bin('worker', cfg), 'gen'], capture_output=True, text=True).stdout.strip().split('\n')
        objs = [(l.split(' ')[0], bytes.fromhex(l.split(' ')[1])) for l in gen]
        objfile = f'{vf.ROOT}/.tmp/c14-objects-{cfg}.txt'; vf.os.makedirs(vf.ROOT + '/.tmp', exist_ok=True); open(objfile, 'w').write('\n'.join(gen) + '\n')
        # the legacy structure format (version tag 0, no identifier counter at the end) is still read: mutate it as well
        for kind, b in list(objs):
            if kind == 'ST' and len(b) > 3 and b[0] == 1:
                v1 = bytes([0]) + b[1:-1]          # identifiers below 128: the counter is the last byte
                objs.append(('ST', v1))
        if cfg == 'alt': objs = [o for o in objs if o[0] in ('USK', 'ENC', 'HDR')][:4]       # the alternative build: the objects whose layout depends on the sizes
        cases = []
        if cfg == 'default': cases += [(l.split(' ')[0], 'corpus', bytes.fromhex(l.split(' ')[1])) for l in corpus]
        for kind, b in objs: cases += mutants(kind, b, ctx.rng, ctx.quick())
        allobjs = [(l.split(' ')[0], bytes.fromhex(l.split(' ')[1])) for l in gen]
        for kind, b in allobjs:
            if kind in ('USK', 'ENC'): cases += structural(kind, b, [o for k2, o in allobjs if k2 == kind and o != b], cfg)
        lines = [f'{k} {m.hex()}' for k, w, m in cases]
        nshard = 16
        shards = [list(range(i, len(lines), nshard)) for i in range(nshard)]
        res = [None] * len(lines)
        with concurrent.futures.ThreadPoolExecutor(nshard) as ex:
            for idx, r in zip(shards, ex.map(lambda idx: run_worker([lines[i] for i in idx], cfg, objfile), shards)):
                for i, x in zip(idx, r): res[i] = x
        # model prediction (extracted WireAlloc readers, repaired mode)
        mres = vf.run_sharded(vf.OCAML + '/adriver', [[l] for l in lines], args=['fixed', cfg], timeout=3000)
        dis = []; bad = []
        for (k, w, m), r, mo in zip(cases, res, mres):
            total += 1
            r = r or 'no answer'; cls = r.split(' ')[0]
            hist[f'{k}:{w}:{cls}'] = hist.get(f'{k}:{w}:{cls}', 0) + 1
            mo = (mo or ['?'])[0]; mcls = mo.split(' ')[0]
            if cls not in ('ok', 'err') or 'use=panic' in r: bad.append((k, w, m, r)); continue
            # proportionality: the worker aborts above 64*len + 1 MiB per request; also bound the total
            f = dict(t.split('=') for t in r.split(' ')[1:] if '=' in t)
            if int(f.get('total', 0)) > 256 * len(m) + (16 << 20): bad.append((k, w, m, r + ' total allocation not proportional')); continue
            if int(f.get('us', 0)) > 2_000_000: bad.append((k, w, m, r + ' took more than 2 s')); continue
            # one-sided agreement: the model rejects for structural reasons only; the code also validates blob encodings
            if mcls == 'err' and cls == 'ok': dis.append((k, w, m.hex()[:80], r, mo))
            if mcls in ('ok',) and cls == 'err': pass
            if mcls == 'ok-trailing' and cls == 'ok': dis.append((k, w, m.hex()[:80], r, mo))
            if mcls in ('panic', 'abort'): dis.append((k, w, m.hex()[:80], r, mo))
        ctx.ob('correspondence', f'[{cfg}] model (WireAlloc, repaired mode) rejects for a structural reason => the code rejects; the code accepts => the model accepts with nothing left over; on {len(cases)} inputs',
               not dis, '' if not dis else f'{len(dis)} disagreements, first: {dis[0]}')
        if bad:
            k, w, m, r = bad[0]
            vf.violation(ctx, f'{w} of a valid {k} serialization: {r}', {'config': cfg, 'kind': k, 'input_hex': m.hex(), 'input_len': len(m), 'mutation': w, 'impl': r, 'violations_total': len(bad)})
        if cfg == 'default': samples = [f'{k} {w} ({len(m)} bytes): {m.hex()[:100]}' for k, w, m in (cases[len(corpus) + 10], cases[len(cases) // 2], cases[-1])]
    ctx.evaluations = total; ctx.traces = total; ctx.hist = hist; ctx.samples = samples
    if not ctx.violations: scaling(ctx)
    ctx.nontrivial = {k for k in hist}
    ctx.rule = ('for valid serializations of all six types (master key, public key, classic and hybridized user keys / encapsulations / headers, structures): every truncation, every single-byte corruption, '
                'every byte position overwritten by LEB128 boundary values up to 2^64-1 and by over-long encodings, trailing bytes, random strings; each input deserialized in an isolated worker (counting allocator: '
                'abort above 64*len+1MiB per request, alarm(5) watchdog, catch_unwind), and every value that parses is used (decaps, recaps, header decryption, encaps, accessors); distinct non-trivial = distinct (type, mutation, outcome) classes')
    ctx.trusted += ['harness/src/bin/worker.rs (counting global allocator, alarm watchdog)', 'extraction: ExtrOcamlBasic only; ocaml/adriver.ml', 'checks/c14.py (mutators)']
    ctx.assumptions += ['the theorem bounds allocation REQUESTS and loop counts of the modelled readers; the system allocator, the running time of curve / ML-KEM operations and panics inside dependencies are observed by the worker only (partial)',
                        'in-memory element size of every collection element is bounded by 4096 bytes in the allocation model']
    vf.finish(ctx)


def replay(ctx, path):
    rep = json.load(open(path))
    if rep.get('scaling'):
        vf.build_harness(ctx); scaling(ctx)
        bad = [o for o in ctx.obligations if not o['ok']]
        for o in bad: print(o['detail'])
        return 1 if bad else 0
    vf.build_harness(ctx, (rep.get('config', 'default'),))
    r = run_worker([f"{rep['kind']} {rep['input_hex']}"], rep.get('config', 'default'))
    print(r[0])
    return 0 if r[0] and r[0].split(' ')[0] in ('ok', 'err') and 'use=panic' not in r[0] else 1
