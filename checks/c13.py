"""C13 - serialized objects are faithful, stable and interchangeable with the originals."""
import histcheck as hc, profiles, vf

def trigger(scr):
    ops = [l.split(' ') for l in scr]
    kinds = {o[1] for o in ops if o[0] == 'RT'}
    return len(kinds) >= 3

def run(ctx):
    if not hc.ensure_builds(ctx, ('default', 'alt'), optional=('alt',)): hc.finish(ctx, 'builds failed')
    n = 500 if ctx.quick() else 10000
    for cfg, k in (('default', n), ('alt', max(60, n // 5))):
        if cfg in ctx.unbuilt: continue
        H, impl, model, dis, hits = hc.run_profile(ctx, profiles.C13, k, config=cfg, trigger=trigger, claims=lambda op, a, b: True)
        if hits: break
    import golden, objcheck, demcheck
    golden.check(ctx)
    demcheck.header_roundtrips(ctx)
    demcheck.big_metadata(ctx)
    demcheck.cleartext_roundtrips(ctx)
    objcheck.wire(ctx, profiles.C13, 30 if ctx.quick() else 300, 'default')
    if 'alt' not in ctx.unbuilt: objcheck.wire(ctx, profiles.C13, 10 if ctx.quick() else 100, 'alt')
    hc.vm_crosscheck(ctx, H, model)
    hc.finish(ctx, f'{n} (+{max(60, n // 5)} in the p-256/ml-kem-768 build) random histories with serialization round trips injected at random steps (the deserialized object replaces the original for the rest of the history), '
              'multi-byte names; every dump checks serialize().len() == length(); golden vectors written by the pinned release are deserialized and used; non-trivial = round trips of at least 3 object kinds')

def replay(ctx, path):
    import json
    if 'cleartext' in rep:
        import demcheck
        vf.build_harness(ctx); demcheck.cleartext_roundtrips(ctx)
        bad = [o for o in ctx.obligations if not o['ok']]
        for o in bad: print(o['detail'])
        return 1 if bad else 0
    if 'bigmeta' in rep:
        import demcheck
        vf.build_harness(ctx); d = demcheck.Demd(); o = d.ask(f"HDRBIG {rep['bigmeta']}"); d.close()
        print(o.replace('_', ' ')[:600]); return 0 if o.split(' ')[-1] == '-' else 1
    rep = json.load(open(path))
    if 'script' in rep: return hc.replay(ctx, path)
    if 'golden_vector' in rep:
        cfg = rep.get('config', 'default'); vf.build_harness(ctx, (cfg,))
        line = [l for l in open(f"{vf.ROOT}/{rep['file']}").read().split('\n') if l][rep['golden_vector']]
        out, _ = vf.run_lines(vf.harness_bin('golden', cfg), [line], args=['check'], timeout=600)
        print(out[0] if out else 'no answer')
        return 0 if out and out[0].startswith('OK') else 1
    # header round-trip findings are deterministic in their inputs: re-run that campaign
    import demcheck
    vf.build_harness(ctx)
    n0 = len(ctx.violations) if hasattr(ctx, 'violations') else 0
    try: demcheck.header_roundtrips(ctx)
    except SystemExit: pass
    bad = [o for o in ctx.obligations if not o['ok']]
    for o in bad: print(o['name'], '->', o['detail'])
    return 1 if bad else 0
