"""C03 - access decisions stay correct across access-structure edits."""
import histcheck as hc, profiles, vf

def trigger(scr):
    ops = [l.split(' ')[0] for l in scr]
    if 'DT' not in ops or 'KG' not in ops: return False
    i = ops.index('DT')
    return 'AT' in ops[i:] and 'DE' in ops[i:]

def gen(rng):
    scr = profiles.C03(rng)
    # force the delete -> add pattern (with and without an update in between) somewhere in the history
    if rng.random() < 0.5:
        dims = [l.split(' ')[1] for l in scr if l.split(' ')[0] in ('AA', 'AH')]
        ats = [l.split(' ') for l in scr if l.split(' ')[0] == 'AT']
        if ats:
            a = rng.choice(ats); i = rng.randrange(len(scr) // 2, len(scr))
            ins = [f'KG x{(bytes.fromhex(a[1][1:]).decode() + "::" + bytes.fromhex(a[2][1:]).decode()).encode().hex()}', f'DT {a[1]} {a[2]}']
            if rng.random() < 0.5: ins.append('UPD')
            new = 'x' + rng.choice(['n', 'm', bytes.fromhex(a[2][1:]).decode()]).encode().hex()
            ins += [f"AT {a[1]} {new} {rng.choice('01')} -", 'UPD', f'EN 999 x{(bytes.fromhex(a[1][1:]).decode() + "::" + bytes.fromhex(new[1:]).decode()).encode().hex()}', 'DE 999 999', 'RF 999 1', 'DE 999 999']
            scr = scr[:i] + ins + scr[i:]
    return scr

def run(ctx):
    if not hc.ensure_builds(ctx): hc.finish(ctx, 'builds failed')
    n = 500 if ctx.quick() else 12000
    H, impl, model, dis, hits = hc.run_profile(ctx, profiles.with_scenarios(gen), n, trigger=trigger, claims=lambda op, a, b: True)
    if not ctx.quick() and not hits:
        x = hist.x
        hc.exhaustive(ctx, 'edit sequences', ['SETUP', 'AH '+x('D'), 'AT '+x('D')+' '+x('a')+' 0 -', 'AT '+x('D')+' '+x('b')+' 1 '+x('a'), 'AT '+x('D')+' '+x('c')+' 0 '+x('b'), 'AA '+x('S'), 'AT '+x('S')+' '+x('p')+' 0 -', 'UPD', 'KG '+x('D::b'), 'KG '+x('D::c && S::p'), 'EN 1 '+x('D::a'), 'EN 1 '+x('D::c')],
            ['DT '+x('D')+' '+x('a'), 'DT '+x('D')+' '+x('c'), 'AT '+x('D')+' '+x('n')+' 1 -', 'AT '+x('D')+' '+x('n')+' 0 '+x('b'), 'RN '+x('D')+' '+x('b')+' '+x('m'), 'DD '+x('S'), 'UPD', 'EN 99 '+x('D::n'), 'RF 0 1', 'KG '+x('D::n')],
            5, ['DE 0 0', 'DE 0 1', 'DE 1 0', 'DE 1 1', 'DE 0 2', 'DE 1 2', 'DE 0 3', 'DE 1 3'], claims=lambda op, a, b: True)
    import dscheck
    dscheck.run(ctx, 300 if ctx.quick() else 20000)
    hc.vm_crosscheck(ctx, H, model)
    hc.finish(ctx, f'{n} random histories biased to attribute/dimension additions, deletions, renames (delete->add forced in half of them, with and without an update in between), '
              'keys generated before and after, encapsulations for old and new attributes; non-trivial = a deletion followed by an addition and a decapsulation')

replay = hc.replay
