"""C19 - a shared instance is safe and live under concurrent use."""
import json, subprocess, os, re
import vf

SRC = ['src/api.rs', 'src/encrypted_header.rs']
# translator key -> name used by harness/src/bin/concd.rs
NAMES = {'decrypt_0': 'decrypt', 'decrypt_1': 'header_decrypt'}


def regenerate(ctx):
    out = vf.COQ + '/generated/LockSkel.v'
    r = vf.sh(['python3', vf.ROOT + '/tools/lockskel.py'] + [f'{vf.REPO}/{s}' for s in SRC] + ['-o', out])
    sk = {}
    for l in r.stdout.strip().split('\n'):
        if l: k, _, v = l.partition(' '); sk[k] = [] if v.strip() == '-' else v.split()
    ctx.ob('translation', 'lock skeleton regenerated from src/api.rs and src/encrypted_header.rs (tools/lockskel.py)', r.returncode == 0 and len(sk) >= 10, r.stderr[-400:] + str(sk))
    with vf.Lock('coq'):
        r2 = vf.sh(f'timeout 600 coqc -R . CC generated/LockSkel.v', cwd=vf.COQ)
    ctx.ob('translation', 'generated/LockSkel.v compiles', r2.returncode == 0, (r2.stdout + r2.stderr)[-400:])
    return sk



class _R:
    def __init__(s, out): s.stdout = out; s.returncode = 124


def run_to(ctx, cmd, timeout):
    """runs a concd mode; a run that does not come back within the deadline yields its partial output plus a FAIL line"""
    import subprocess
    if getattr(ctx, 'conc_dead', False): return _R('FAIL skipped: an earlier run on a shared instance never returned')
    try: return vf.sh(cmd, timeout=timeout)
    except subprocess.TimeoutExpired as e:
        so = e.stdout.decode() if isinstance(e.stdout, bytes) else (e.stdout or '')
        ctx.conc_dead = True
        return _R(so + f'\nFAIL the run `concd {" ".join(cmd[1:])}` did not finish within {timeout} s: some call on the shared instance never returns (deadlock)')

def run(ctx):
    ok = vf.build_harness(ctx); ok = vf.build_coq(ctx) and ok
    vf.forbidden_scan(ctx)
    sk = regenerate(ctx)
    vf.proof_obligations(ctx)
    if ctx.tier == 'thorough': vf.coqchk(ctx, 'C19')
    if not ok: vf.finish(ctx)
    conc = vf.harness_bin('concd')
    # (a) every method single-threaded under a watchdog
    r = run_to(ctx, [conc, 'single'], 300)
    bad = [l for l in r.stdout.split('\n') if l.startswith('FAIL')]
    ctx.evaluations += len(r.stdout.strip().split('\n'))
    if bad: vf.violation(ctx, 'single-threaded call on a fresh instance: ' + bad[0], {'mode': 'single', 'output': r.stdout[-1500:]})
    # (b) every method under a held generator lock: blocks exactly when the regenerated skeleton says it takes the lock
    r = run_to(ctx, [conc, 'blocks'], 600)
    obs = {}
    for l in r.stdout.strip().split('\n'):
        f = l.split(' ')
        if len(f) >= 2: obs[f[1]] = f[0] + (' ' + f[2] if len(f) > 2 else '')
    dis = []
    for k, evs in sk.items():
        n = NAMES.get(k, k)
        if n not in obs: dis.append((k, 'not exercised')); continue
        exp = 'BLOCKED' if 'Acq' in evs else 'NOTBLOCKED'
        if not obs[n].startswith(exp + ' ok'): dis.append((k, f'skeleton {evs} predicts {exp}, observed {obs[n]}'))
        ctx.count(f'{n}:{obs[n]}')
    stuck = [n for n, o in obs.items() if o.startswith('STUCK') or 'wrong' in o]
    ctx.ob('correspondence', f'each of {len(sk)} API methods blocks while another thread holds the generator lock iff its regenerated skeleton contains an acquisition, and completes after release',
           not dis, str(dis[:3]))
    if stuck: vf.violation(ctx, f'call {stuck[0]} did not complete (or returned a wrong result) after the generator lock was released', {'mode': 'blocks', 'output': r.stdout[-1500:]})
    # (c) stress: threads x mixed calls on distinct key objects sharing one instance
    t, n = (8, 400) if ctx.quick() else (16, 6000)
    r = run_to(ctx, [conc, 'stress', str(t), str(n)], 240 if ctx.quick() else 3000)
    lines = r.stdout.strip().split('\n')
    fails = [l for l in lines if l.startswith('FAIL')]
    done = [l for l in lines if l.startswith('OK thread')]
    vals = {}
    for l in lines:
        if l.startswith('VAL '): _, k, v = l.split(' '); vals.setdefault(k, []).append(v)
    dup = {k: len(v) - len(set(v)) for k, v in vals.items() if len(v) != len(set(v))}
    ctx.evaluations += t * n; ctx.traces += t * n
    ctx.cov['stress'] = {'threads': t, 'calls_per_thread': n, 'values_checked_for_distinctness': {k: len(v) for k, v in vals.items()}}
    if fails or len(done) != t:
        vf.violation(ctx, 'concurrent use of one instance: ' + (fails[0] if fails else f'only {len(done)} of {t} threads finished'), {'mode': f'stress {t} {n}', 'output': '\n'.join((fails or lines)[-20:])})
    if dup: vf.violation(ctx, f'values that must be fresh repeat across threads: {dup}', {'mode': f'stress {t} {n}', 'duplicates': dup})
    # (d) bursts: fresh instances created in their own threads and FIRST used by several threads at once; values pooled over
    # the instances (a generator that is not ready, or not independent, at the first concurrent use repeats values)
    import conc
    for ni, nt in ((24, 8), (48, 4)):      # many fresh instances: a first-use race must happen on two of them to show (measured: 5-17 repeats per run on such a seeded change)
        conc.burst(ctx, ni if ctx.quick() else 4 * ni, nt, 2 if ctx.quick() else 6)
    # (e) hammer: one instance, 16 threads, thousands of calls of ONE kind each: a race window of a few
    # instructions between two critical sections (a generator copied out and written back, a two-step fork) is only hit
    # under real contention and at volume (measured on such a seeded change: 12-117 repeated values per run, none at 8 x 400)
    # refused calls (unknown attribute / dimension) between successful ones, alone and under contention
    conc.burst(ctx, 1, 1, 150 if ctx.quick() else 3000, kind=7, what=' (refused calls interleaved with encapsulations and headers, one thread)')
    conc.burst(ctx, 1, 8, 60 if ctx.quick() else 1500, kind=7, what=' (refused calls interleaved, 8 threads)')
    for kind, what, k in ((0, 'encaps', 1500), (1, 'PKE encrypt', 800), (2, 'header generate', 800)):
        conc.burst(ctx, 1, 16, k if ctx.quick() else 12 * k, kind=kind, what=f' (all {what})')
    ctx.nontrivial = set(ctx.hist) | {f'stress-thread-{i}' for i in range(len(done))}
    ctx.samples = [f'{k}: {" ".join(v) or "(no lock)"}' for k, v in list(sk.items())[:13]]
    ctx.rule = ('lock skeleton of the 13 API methods regenerated from the source; each method run single-threaded under a watchdog, run against a held lock, and in a stress run of T threads x N mixed calls '
                '(encaps, PKE encrypt, header generate, keygen, rekey, keygen+encaps+decaps+refresh+decaps) with every result validated and fresh values compared across threads')
    ctx.trusted += ['tools/lockskel.py (the translator: tokenises the Rust source, classifies guard temporaries / let-bound guards / calls to other API methods; anything unrecognised near the rng field becomes Unknown and fails the obligation)',
                    'harness/src/bin/concd.rs']
    ctx.assumptions += ['textbook non-reentrant mutex semantics (std::sync::Mutex contract); PARTIAL: hardware memory model, fairness of the OS lock and data-race freedom inside dependencies are outside the model; the stress run is a search, not a proof']
    vf.finish(ctx)


def replay(ctx, path):
    rep = json.load(open(path)); vf.build_harness(ctx)
    r = vf.sh([vf.harness_bin('concd')] + rep['mode'].split(' '), timeout=3000)
    out = [l for l in r.stdout.split('\n') if not l.startswith('VAL')]
    print('\n'.join(out[-30:]))
    return 1 if any(l.startswith(('FAIL', 'STUCK')) for l in out) else 0
