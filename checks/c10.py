"""C10 - failed operations leave keys untouched."""
import histcheck as hc, profiles, hist, vf

def gen(rng):
    scr = profiles.C10(rng)
    x = hist.x
    dims = [l.split(' ')[1] for l in scr if l.split(' ')[0] in ('AA', 'AH')]
    if dims and rng.random() < 0.7:
        i = rng.randrange(max(1, len(scr) // 3), len(scr)); d = rng.choice(dims); ins = []
        kind = rng.random()
        if kind < 0.4:      # born-disabled right among k new rights: update must fail and change nothing
            for k in range(rng.randint(0, 2)): ins.append(f"AT {d} {x('p%d' % k)} {rng.choice('01')} -")
            ins += [f"AT {d} {x('q')} 0 -", f"DS {d} {x('q')}"]
            for k in range(rng.randint(0, 2)): ins.append(f"AT {d} {x('r%d' % k)} {rng.choice('01')} -")
            ins += ['UPD', 'KG ' + x('*'), 'RF 0 1', 'RF 0 0']
        elif kind < 0.8:    # rekey over a right set one member of which is unknown to the master key
            ins += [f"AT {d} {x('q')} {rng.choice('01')} -", 'RK ' + x('*'), 'RK ' + x(hist.unx(d) + '::q'), 'KG ' + x(hist.unx(d) + '::q'), 'PR ' + x('*')]
        elif kind < 0.9:    # compound policies whose LAST operand fails, after a rotation: nothing may be pruned / rotated / issued
            live = [l.split(' ') for l in scr[:i] if l.split(' ')[0] == 'AT']
            if live:
                a = rng.choice(live); good = hist.unx(a[1]) + '::' + hist.unx(a[2])
                ins += ['RK ' + x(good), 'RK ' + x(good)]
                for bad in (good + ' || ' + hist.unx(d) + '::zz', good + ' || Z::q', '(' + good + ') || (' + good + ' && ' + hist.unx(d) + '::zz)'):
                    ins += [rng.choice(['PR ', 'RK ', 'KG ']) + x(bad)]
                ins += ['PR ' + x(good + ' || ' + hist.unx(d) + '::zz'), 'RF 0 1', 'DE 0 0']
        else:               # key generation / encapsulation for something not yet made effective
            ins += [f"AT {d} {x('q')} 1 -", 'KG ' + x(hist.unx(d) + '::q'), 'EN 999 ' + x(hist.unx(d) + '::q'), 'RF 999 0']
        scr = scr[:i] + ins + scr[i:]
    return scr

def trigger(scr): return True

def run(ctx):
    if not hc.ensure_builds(ctx): hc.finish(ctx, 'builds failed')
    n = 600 if ctx.quick() else 12000
    H, impl, model, dis, hits = hc.run_profile(ctx, gen, n, claims=lambda op, a, b: False)
    fails = sum(v for k, v in ctx.hist.items() if k.endswith(':ERR'))
    ctx.cov['failing_calls_checked'] = fails
    ctx.nontrivial = {('\n'.join(s)) for s, o in zip(H, impl) if any(x.split('|')[0] == 'ERR' and l.split(' ')[0] in ('UPD', 'RK', 'RF', 'KG') for l, x in zip(s, o or []))}
    if not ctx.quick() and not hits:
        x = hist.x
        hc.exhaustive(ctx, 'failing-call sequences', ['SETUP', 'AH '+x('D'), 'AT '+x('D')+' '+x('a')+' 0 -', 'AT '+x('D')+' '+x('b')+' 1 '+x('a'), 'AT '+x('D')+' '+x('c')+' 0 '+x('b'), 'AA '+x('S'), 'AT '+x('S')+' '+x('p')+' 0 -', 'UPD', 'KG '+x('D::b'), 'KG '+x('D::c && S::p'), 'EN 1 '+x('D::a'), 'EN 1 '+x('D::c')],
            ['AT '+x('D')+' '+x('q')+' 0 -', 'DS '+x('D')+' '+x('q'), 'DS '+x('D')+' '+x('a'), 'UPD', 'RK '+x('D::q'), 'RK '+x('*'), 'KG '+x('D::q'), 'SNAP', 'REST 0', 'RF 0 0', 'RF 2 1', 'DT '+x('D')+' '+x('b')],
            5, ['RF 0 1', 'RF 1 0', 'UPD'], claims=lambda op, a, b: False)
    hc.vm_crosscheck(ctx, H, model)
    hc.finish(ctx, f'{n} random histories with injected failing calls (born-disabled right among k new rights at random positions; rekey over a set with one unknown right; key generation, '
              f'encapsulation and refresh on not-yet-effective edits); {fails} failing calls, after each of which the canonical dump of the master key and of the user key involved is compared with the dump before the call; '
              'non-trivial = a history in which update, rekey, refresh or key generation failed')

replay = hc.replay
