"""C08 - only user keys issued by the master key are accepted for refresh."""
import json, subprocess, os
import vf

SK, PT, DK = 32, 32, 1632


def leb(v):
    o = bytearray()
    while True:
        b = v & 0x7f; v >>= 7
        if v: o.append(b | 0x80)
        else: o.append(b); return bytes(o)


def rleb(b, p):
    r = 0; s = 0
    while True:
        x = b[p]; p += 1; r |= (x & 0x7f) << s; s += 7
        if not x & 0x80: return r, p


class K:
    """serialized user key: id markers, tracing points, chains [(right, [(hyb, sk, dk)])], signature"""
    def __init__(s, b=None):
        if b is None: return
        n, p = rleb(b, 0); s.id = [b[p + SK * i:p + SK * (i + 1)] for i in range(n)]; p += SK * n
        np_, p = rleb(b, p); s.ps = [b[p + PT * i:p + PT * (i + 1)] for i in range(np_)]; p += PT * np_
        nc, p = rleb(b, p); s.chains = []
        for _ in range(nc):
            l, p = rleb(b, p); r = b[p:p + l]; p += l; nk, p = rleb(b, p); ks = []
            for _ in range(nk):
                h = b[p]; p += 1; sk = b[p:p + SK]; p += SK; dk = b''
                if h == 1: dk = b[p:p + DK]; p += DK
                ks.append((h, sk, dk))
            s.chains.append((r, ks))
        s.sig = b[p:]
    def copy(s):
        k = K(); k.id = list(s.id); k.ps = list(s.ps); k.chains = [(r, list(ks)) for r, ks in s.chains]; k.sig = s.sig; return k
    def build(s):
        o = bytearray(leb(len(s.id)))
        for m in s.id: o += m
        o += leb(len(s.ps))
        for q in s.ps: o += q
        o += leb(len(s.chains))
        for r, ks in s.chains:
            o += leb(len(r)) + r + leb(len(ks))
            for (h, sk, dk) in ks: o += bytes([h]) + sk + (dk if h == 1 else b'')
        return bytes(o + s.sig)
    def stream(s):
        """the KMAC input as the property's anchor describes it (independent re-computation, implementation side)"""
        o = bytearray()
        for m in s.id: o += m
        for r, ks in s.chains:
            if not ks: continue          # empty chains are dropped on deserialization
            o += r
            for (h, sk, dk) in ks: o += sk + (dk if h == 1 else b'')
        return bytes(o)
    def body(s): return (tuple(s.id), tuple((r, tuple(ks)) for r, ks in s.chains if ks))


def tamperings(k, others, rng):
    """yields (description, tampered K) for every operator of the property statement at every position"""
    n = len(k.chains)
    for i in range(n):
        for j in range(n):
            if i < j:
                t = k.copy(); t.chains[i], t.chains[j] = t.chains[j], t.chains[i]; yield 'rights reordered (swap chains %d,%d)' % (i, j), t
    for i in range(n + 1):
        t = k.copy(); t.chains.insert(i, (b'', [])); yield 'nameless right without secret added', t
        t = k.copy(); t.chains.insert(i, (b'\x09', [])); yield 'named right without secret added', t
    for i in range(n):
        t = k.copy(); del t.chains[i]; yield 'right removed', t
        t = k.copy(); t.chains.append(k.chains[i]); yield 'right duplicated (appended)', t
        t = k.copy(); t.chains.insert(i, k.chains[i]); yield 'right duplicated (adjacent)', t
        t = k.copy(); t.chains[i] = (k.chains[i][0] + b'\x07', k.chains[i][1]); yield 'right renamed (byte appended)', t
        if k.chains[i][0]:
            t = k.copy(); t.chains[i] = (k.chains[i][0][:-1], k.chains[i][1]); yield 'right renamed (byte dropped)', t
            t = k.copy(); r = bytearray(k.chains[i][0]); r[0] ^= 1; t.chains[i] = (bytes(r), k.chains[i][1]); yield 'right renamed (bit flipped)', t
        ks = k.chains[i][1]
        for j in range(n):
            if i != j:
                if len(ks) > 1:
                    t = k.copy(); t.chains[i] = (k.chains[i][0], ks[:-1]); t.chains[j] = (k.chains[j][0], [ks[-1]] + k.chains[j][1]); yield 'secret moved to the front of another chain', t
                    t = k.copy(); t.chains[i] = (k.chains[i][0], ks[:-1]); t.chains[j] = (k.chains[j][0], k.chains[j][1] + [ks[-1]]); yield 'secret moved to the end of another chain', t
                t = k.copy(); t.chains[i] = (k.chains[i][0], [k.chains[j][1][0]] + ks[1:]); t.chains[j] = (k.chains[j][0], [ks[0]] + k.chains[j][1][1:]); yield 'newest secrets swapped between two rights', t
        if len(ks) > 1:
            t = k.copy(); t.chains[i] = (k.chains[i][0], [ks[1], ks[0]] + ks[2:]); yield 'secrets swapped inside a chain', t
            t = k.copy(); t.chains[i] = (k.chains[i][0], ks[:-1]); yield 'oldest secret dropped', t
            t = k.copy(); t.chains[i] = (k.chains[i][0], ks[1:]); yield 'newest secret dropped', t
            # re-framings that keep the byte stream (known finding F11)
            for cut in range(1, len(ks)):
                t = k.copy(); t.chains[i] = (k.chains[i][0], ks[:cut]); t.chains.insert(i + 1, (b'', ks[cut:])); yield 'chain split at an empty right name', t
                if k.chains[i][0]:
                    t = k.copy(); t.chains[i] = (k.chains[i][0], ks[:cut]); t.chains.insert(i + 1, (k.chains[i][0], ks[cut:])); yield 'chain split in two entries with the same right name (right duplicated, secrets divided)', t
                    t = k.copy(); t.chains[i] = (k.chains[i][0], ks[:cut]); t.chains.append((k.chains[i][0], ks[cut:])); yield 'chain split, second part appended under the same right name', t
        t = k.copy(); t.chains[i] = (k.chains[i][0], ks + [ks[0]]); yield 'secret duplicated', t
        if i + 1 < n and k.chains[i + 1][0] == b'':
            t = k.copy(); t.chains[i] = (k.chains[i][0], ks + k.chains[i + 1][1]); del t.chains[i + 1]; yield 'following empty-right chain merged', t
        for si, (h, sk, dk) in enumerate(ks):
            if h == 1:
                t = k.copy(); nk = list(ks); nk[si] = (0, sk, b''); t.chains[i] = (k.chains[i][0], nk); yield 'flavour changed hybridized->classic (dk dropped)', t
                if si == len(ks) - 1 and i + 1 < n:
                    t = k.copy(); nk = list(ks); nk[si] = (0, sk, b''); t.chains[i] = (k.chains[i][0], nk); t.chains[i + 1] = (dk + k.chains[i + 1][0], k.chains[i + 1][1]); yield 'flavour changed, dk absorbed into the next right name', t
                t = k.copy(); nk = list(ks); nk[si] = (1, sk, bytes([dk[0] ^ 1]) + dk[1:]); t.chains[i] = (k.chains[i][0], nk); yield 'dk altered', t
            else:
                t = k.copy(); nk = list(ks); nk[si] = (0, bytes([sk[0] ^ 1]) + sk[1:], b''); t.chains[i] = (k.chains[i][0], nk); yield 'sk altered', t
            # bytes shifted between a right's name and its secrets
            if si == 0 and len(ks) >= 1 and h == 0 and len(k.chains[i][0]) >= 1:
                r = k.chains[i][0]
                t = k.copy(); nk = list(ks); nk[0] = (0, r[-1:] + sk[:-1], b''); t.chains[i] = (r[:-1], nk); yield 'byte shifted from the right name into its first secret', t
    t = k.copy(); t.chains = []; yield 'every right removed', t
    t = k.copy(); t.chains = []; t.sig = b''; yield 'every right removed, signature stripped', t
    t = k.copy(); t.sig = b''; yield 'signature stripped', t
    if k.sig:
        t = k.copy(); t.sig = bytes([k.sig[0] ^ 1]) + k.sig[1:]; yield 'signature altered', t
        for (a, b2, m) in ((0, 1, 1), (3, 17, 0x80), (30, 31, 0x55)):
            sg = bytearray(k.sig); sg[a] ^= m; sg[b2] ^= m; t = k.copy(); t.sig = bytes(sg); yield 'signature altered (two bytes, same mask)', t
        sg = bytearray(k.sig); sg[2], sg[9] = sg[9], sg[2]; t = k.copy(); t.sig = bytes(sg)
        if t.sig != k.sig: yield 'signature altered (two bytes swapped)', t
        sg = bytearray(k.sig); sg[:] = sg[::-1]; t = k.copy(); t.sig = bytes(sg); yield 'signature reversed', t
        t = k.copy(); t.sig = k.sig[:-1] + bytes([k.sig[-1] ^ 0x80]); yield 'signature altered (last byte)', t
    t = k.copy(); t.id = [bytes([k.id[0][0] ^ 1]) + k.id[0][1:]] + k.id[1:]; yield 'identifier altered', t
    t = k.copy(); t.id = k.id[::-1]; yield 'identifier markers reversed', t
    if len(k.id) > 1 and n and k.chains[0][1]:
        t = k.copy(); t.id = k.id[:-1]; t.chains[0] = (k.id[-1] + k.chains[0][0], k.chains[0][1]); yield 'last marker moved into the first right name', t
    for o in others:
        if o.id == k.id:
            # another VERSION of the same user's key (before / after a refresh, with or without the old secrets): splices
            od = dict(o.chains)
            t = k.copy(); t.chains = [(r, ks + [q for q in od.get(r, []) if q not in ks]) for r, ks in k.chains]
            if t.chains != k.chains: yield 'secrets of another version of the same key appended to every chain', t
            t = k.copy(); t.chains = [(r, [q for q in od.get(r, []) if q not in ks] + ks) for r, ks in k.chains]
            if t.chains != k.chains: yield 'secrets of another version of the same key put in front of every chain', t
            for i, (r, ks) in enumerate(k.chains):
                extra = [q for q in od.get(r, []) if q not in ks]
                if extra:
                    t = k.copy(); t.chains[i] = (r, ks + extra); yield 'secrets of another version of the same key appended to one chain', t
            t = o.copy(); t.sig = k.sig; yield 'body of another version of the same key under this signature', t
            continue
        t = k.copy(); t.sig = o.sig; yield 'signature of another issued key', t
        t = k.copy(); t.id = list(o.id); yield 'identifier of another issued key', t
        t = k.copy(); t.chains = t.chains + [c for c in o.chains if c[0] not in [r for r, _ in k.chains]]; yield 'rights of another issued key added', t
        t = o.copy(); t.sig = k.sig; t.id = list(k.id); yield 'body of another issued key under this id and signature', t


def run(ctx):
    ok = vf.build_harness(ctx); ok = vf.build_coq(ctx) and ok
    vf.forbidden_scan(ctx); vf.proof_obligations(ctx)
    if ctx.tier == 'thorough': vf.coqchk(ctx, 'C08')
    if not ok: vf.finish(ctx)
    known = [k for k in vf.known_findings() if k.get('kind') == 'finding' and k.get('property') == 'C08']
    rounds = 1 if ctx.quick() else 6
    total = 0; accepted_issued = 0; reframed = 0; hist = {}
    samples = []
    for rd in range(rounds):
        p = subprocess.Popen([vf.harness_bin('tamperd')], stdin=subprocess.PIPE, stdout=subprocess.PIPE, text=True)
        def ask(l):
            p.stdin.write(l + '\n'); p.stdin.flush(); return p.stdout.readline().strip()
        p.stdin.write('GEN\n'); p.stdin.flush()
        msk = msk2 = None; keys = []; keys2 = []
        while True:
            l = p.stdout.readline().strip()
            if l == 'END' or not l: break
            kind, h = l.split(' ')
            if kind == 'MSK': msk = h
            elif kind == 'MSK2': msk2 = h
            elif kind == 'KEY': keys.append(bytes.fromhex(h))
            elif kind == 'KEY2': keys2.append(bytes.fromhex(h))
        if msk is None or not keys:
            ctx.ob('correspondence', f'round {rd}: the scenario (generate, rekey, refresh with and without the old secrets) runs through', False, 'the harness scenario failed: an honest generate / rekey / refresh sequence was refused or panicked')
            break
        ask('MSK ' + msk)
        parsed = [K(b) for b in keys]
        for k, b in zip(parsed, keys): assert k.build() == b, 'harness USK parser/builder is not the identity'
        issued_bodies = {k.body(): k for k in parsed}
        cases = []
        for ki, k in enumerate(parsed):
            if ctx.quick() and ki % 2 == 1 and ki > 4: continue
            others = [parsed[(ki + 1) % len(parsed)], parsed[(ki + 5) % len(parsed)]]
            others = [o for o in others if o.id != k.id] + [q for q in parsed if q.id == k.id and q is not k]
            for what, t in tamperings(k, others, ctx.rng):
                tb = t.build()
                if tb == keys[ki]: continue
                cases.append((ki, what, t, tb))
        for b in keys2: cases.append((0, 'key issued by another master key', K(b), b))
        # honest controls: every issued key must be accepted
        for ki, b in enumerate(keys):
            r = ask(f'TRY {b.hex()} {ki % 2}')
            ctx.ob('correspondence', f'round {rd}: issued key #{ki} is accepted', r.startswith('ACCEPT'), r) if not r.startswith('ACCEPT') else None
        # model side (extracted Coq: r_usk, mk_body, mac_stream, reframing_of), one line per case
        mlines = [f'{keys[ki].hex()} {tb.hex()}' for ki, what, t, tb in cases]
        mout = vf.run_sharded(vf.OCAML + '/mdriver', [[l] for l in mlines], timeout=1800)
        dis = []
        for (ki, what, t, tb), mo in zip(cases, mout):
            total += 1
            r = ask(f'TRY {tb.hex()} {total % 2}')
            hist[what + ' -> ' + r.split(' ')[0]] = hist.get(what + ' -> ' + r.split(' ')[0], 0) + 1
            mo = (mo or ['?'])[0]
            is_issued = t.body() in issued_bodies and issued_bodies[t.body()].sig == t.sig and issued_bodies[t.body()].id == t.id
            # an issued key of the same user with the same stream and signature (what verify compares)
            same_stream_issued = [q for q in parsed if q.id == t.id and q.sig == t.sig and q.stream() == t.stream()]
            if r == 'UNPARSABLE':
                continue      # one-sided: the real reader also validates scalar / key encodings, which the model treats as opaque blobs
            if mo == 'P0': dis.append((what, r, mo)); continue
            if r.startswith('REJECT'):
                if 'u=1' not in r or 'm=1' not in r:
                    vf.violation(ctx, f'rejected tampered key ({what}) but a key was modified: {r}', {'issued_usk_hex': keys[ki].hex(), 'tampered_usk_hex': tb.hex(), 'msk_hex': msk, 'tampering': what, 'impl': r})
                if same_stream_issued and not is_issued and False: pass
                # model prediction: accepted iff the stream equals that of the issued key it was derived from (same id, same signature)
                if mo.startswith('P1') and ' S1 ' in mo and ' I1 ' in mo and mo.endswith('G1'): dis.append((what, r, mo))
                continue
            if r.startswith('ACCEPT'):
                if is_issued:
                    # the bytes differ from the issued ones but describe the issued key (e.g. an empty chain, which the reader
                    # drops): fine ONLY IF the reader really normalised them away; a parsed key that re-serializes to the
                    # tampered bytes IS the tampered arrangement, and it was accepted
                    if tb != issued_bodies[t.body()].build() and 'same=1' in r:
                        vf.violation(ctx, f'refresh accepted a key that is not an issued one ({what}): the reader kept the added / altered part, the signature does not cover it', {'issued_usk_hex': keys[ki].hex(), 'tampered_usk_hex': tb.hex(), 'msk_hex': msk, 'tampering': what, 'impl': r})
                    accepted_issued += 1; continue
                if same_stream_issued:
                    reframed += 1
                    if known:
                        msg = f'{known[0]["id"]}: refresh accepted a re-framed key (e.g. {what}) whose KMAC input string equals that of an issued key with the same identifier and signature'
                        if not any(h.startswith(known[0]["id"]) for h in ctx.known_hits): ctx.known_hits.append(msg)
                    else:
                        vf.violation(ctx, f'refresh accepted a re-framed key ({what}): different arrangement, same KMAC input string', {'issued_usk_hex': keys[ki].hex(), 'tampered_usk_hex': tb.hex(), 'msk_hex': msk, 'tampering': what})
                    if not (mo.startswith('P1') and ' R1 ' in mo + ' '):
                        if ' S1 ' not in mo: dis.append((what, r, mo))
                    continue
                vf.violation(ctx, f'refresh accepted a key that was never issued ({what}) and whose KMAC input differs from every issued key', {'issued_usk_hex': keys[ki].hex(), 'tampered_usk_hex': tb.hex(), 'msk_hex': msk, 'tampering': what, 'impl': r})
            else:
                vf.violation(ctx, f'refresh of a tampered key ({what}) ended with {r}', {'issued_usk_hex': keys[ki].hex(), 'tampered_usk_hex': tb.hex(), 'msk_hex': msk, 'tampering': what, 'impl': r})
            if len(ctx.violations) >= 3: break
        ctx.ob('correspondence', f'round {rd}: refresh_usk accepts a tampered key iff the extracted Coq mac_stream of its parsed bytes equals that of the issued key (same id and signature), on {len(cases)} tampered keys',
               not dis, '' if not dis else f'{len(dis)} disagreements, first: {dis[0]}')
        if rd == 0: samples = [f'{w}: {tb.hex()[:120]}...' for _, w, _, tb in cases[:3]]
        p.stdin.close(); p.wait()
    ctx.evaluations = total; ctx.traces = total
    ctx.nontrivial = set(hist)
    ctx.hist = hist
    ctx.samples = samples
    ctx.cov['accepted_reframings_known_finding'] = reframed
    ctx.cov['accepted_other_issued_version'] = accepted_issued
    ctx.rule = ('every tampering operator of the property statement (rights added/removed/renamed/reordered/duplicated, secrets moved/swapped/dropped/duplicated, bytes shifted between name and secrets, '
                'flavour changed, signature stripped/altered/transplanted, identifier altered, keys of another master key, splices of two issued keys, stream-preserving re-framings) at every position of issued keys '
                '(1-9 rights, 1-3 revisions, classic and hybridized); distinct non-trivial = distinct (operator, outcome) classes')
    ctx.trusted += ['extraction: ExtrOcamlBasic only; ocaml/mdriver.ml', 'harness/src/bin/tamperd.rs', 'checks/c08.py (USK parser/builder, tampering operators, independent stream computation)']
    ctx.assumptions += ['KMAC idealised as an injective MAC (Section hypothesis mac_inj)', 'known finding F11 (stream-preserving re-framings) is suppressed only when the re-computed KMAC input of the accepted key equals that of an issued key with the same id and signature']
    vf.finish(ctx)


def replay(ctx, path):
    rep = json.load(open(path))
    vf.build_harness(ctx)
    p = subprocess.run([vf.harness_bin('tamperd')], input=f"MSK {rep['msk_hex']}\nTRY {rep['tampered_usk_hex']} 1\nTRY {rep['issued_usk_hex']} 1\n", capture_output=True, text=True)
    print(p.stdout)
    return 1 if 'ACCEPT' in p.stdout.split('\n')[1] else 0
