"""C02 - unauthorized keys never recover a secret."""
import histcheck as hc, profiles, covers, vf

def trigger(scr):
    ops = [l.split(' ')[0] for l in scr]
    return ops.count('KG') >= 2 and ops.count('EN') >= 2 and any('7c7c' in l or '2626' in l for l in scr)

def run(ctx):
    if not hc.ensure_builds(ctx, ('default', 'alt')): hc.finish(ctx, 'builds failed')
    n = 300 if ctx.quick() else 8000
    orc = lambda scr, out: covers.oracle(scr, out, False)
    for cfg, k in (('default', n), ('alt', max(60, n // 4))):
        H, impl, model, dis, hits = hc.run_profile(ctx, lambda rng: profiles.static_history(rng, multibyte=(rng.random() < 0.2)), k, config=cfg,
            claims=lambda op, a, b: op == 'DE' and a in ('NONE',), extra_oracle=orc, trigger=trigger, label='static structures x policies')
        if hits: break
    if not hits:
        # the cover relation along HISTORIES: attributes deleted and re-created (possibly across a master-key round trip or
        # backup/restore), rotations, refreshes; the name-level reference semantics says who opens what
        m = 120 if ctx.quick() else 3000
        hc.run_profile(ctx, profiles.with_rotation(profiles.with_scenarios(profiles.DYN, 0.5), 0.15), m, claims=lambda op, a, b: op == 'DE' and a == 'NONE', label='cover relation along histories')
    hc.vm_crosscheck(ctx, H, model)
    hc.finish(ctx, f'{n} (default build) + {max(60, n // 4)} (p-256 + ml-kem-768 build) generated structures (1-4 dimensions, 0-4 attributes, both kinds, mixed hints, edits before the update) '
              'each with 2-5 user policies and 3-8 encryption policies (AND/OR/parentheses/*), all pairs decapsulated; oracle = name-level cover relation of the property text; '
              'non-trivial = at least 2 keys, 2 encapsulations and a policy with an operator')

replay = hc.replay
