"""C09 - every API call succeeds or fails exactly as its contract says."""
import histcheck as hc, profiles, vf

def trigger(scr):
    ops = [l.split(' ')[0] for l in scr]
    return len(set(ops)) >= 10

def run(ctx):
    if not hc.ensure_builds(ctx): hc.finish(ctx, 'builds failed')
    n = 700 if ctx.quick() else 15000
    H, impl, model, dis, hits = hc.run_profile(ctx, profiles.with_scenarios(profiles.C09, 0.08), n, trigger=trigger, claims=lambda op, a, b: a in ('OK', 'ERR') or b in ('OK', 'ERR'))
    errs = sum(v for k, v in ctx.hist.items() if k.endswith(':ERR')); tot = sum(ctx.hist.values())
    ctx.cov['error_share'] = round(errs / max(1, tot), 3)
    hc.vm_crosscheck(ctx, H, model)
    hc.finish(ctx, f'{n} random histories over all operations with valid and invalid arguments (unknown/duplicate names, unknown `after`, deleting twice, renaming onto an existing name, '
              'policies over deleted or not yet updated attributes, two attributes of one dimension, encapsulation between an edit and the update); every Ok/Err outcome compared with the name-level contract; '
              'non-trivial = at least 10 distinct operation kinds')

replay = hc.replay
