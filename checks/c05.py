"""C05 - revocation takes effect: pruned and deleted secrets leave refreshed keys."""
import histcheck as hc, profiles, vf

def trigger(scr):
    ops = [l.split(' ')[0] for l in scr]
    for i, o in enumerate(ops):
        if o in ('PR', 'DT', 'DD') and 'RF' in ops[i:] and 'DE' in ops[i:] and 'RK' in ops[:i]: return True
    return False

def held_after_prune(scr, out):
    """direct oracle on the dumps: after a successful refresh, every secret of the user key is a secret of the master
    key's chain for the same right (doc-comment invariant of refresh_coordinate_keys)"""
    hits = []
    def ids_of(r):
        b = bytes.fromhex(r[1:]); out = []; v = 0; sh = 0
        for c in b:
            v |= (c & 0x7f) << sh; sh += 7
            if not c & 0x80: out.append(v); v = 0; sh = 0
        return out
    for ln, (l, o) in enumerate(zip(scr, out)):
        f = l.split(' '); p = o.split('|')
        # an update that reports success leaves no right of a deleted attribute in the master key: every identifier in a
        # right name is the identifier of an attribute of the structure (whatever else the update had to do)
        if f[0] == 'UPD' and p[0] == 'OK' and len(p) >= 2 and ' S=' in p[1] and ' K=' in p[1]:
            try:
                sfield = p[1].split(' S=', 1)[1].split(' K=', 1)[0].strip()
                live = {int(a.split('/')[1]) for d in sfield.split(';') if d.count(':') >= 2 for a in d.split(':', 2)[2].split(',') if a.count('/') >= 3}
                gone = sorted({r for r in (it.split('=', 1)[0] for it in p[1].split(' K=', 1)[1].split(' ') if '=' in it) if any(i not in live for i in ids_of(r))})
            except Exception: gone = []
            if gone: hits.append((ln, f'update succeeded and the master key still holds secrets for right {gone[0]}, which names a deleted attribute')); break
        if f[0] == 'RF' and p[0] == 'OK' and len(p) >= 3:
            msk = dict(it.split('=', 1) for it in p[1].split(' K=', 1)[1].split(' ') if '=' in it) if ' K=' in p[1] else {}
            usk = dict(it.split('=', 1) for it in p[2].split(' K=', 1)[1].split(' ') if '=' in it) if ' K=' in p[2] else {}
            for r, ch in usk.items():
                if r not in msk: hits.append((ln, f'refreshed key holds right {r} that the master key no longer has')); break
                mt = [x.split('/')[-1] for x in msk[r].split(';')]
                ut = [x.split('/')[-1] for x in ch.split(';')]
                if any(t not in mt for t in ut): hits.append((ln, f'refreshed key holds a secret of right {r} that was removed from the master key')); break
                if ut and mt and ut[0] != mt[0]: hits.append((ln, f'refreshed key does not hold the newest secret of right {r}')); break
    return hits

def run(ctx):
    if not hc.ensure_builds(ctx): hc.finish(ctx, 'builds failed')
    n = 500 if ctx.quick() else 12000
    H, impl, model, dis, hits = hc.run_profile(ctx, profiles.with_rotation(profiles.with_scenarios(profiles.C05), 0.12, disable=None), n, trigger=trigger, extra_oracle=held_after_prune,
        claims=lambda op, a, b: op in ('DE', 'RF', 'PR'))
    if not ctx.quick() and not hits:
        import hist; x = hist.x
        hc.exhaustive(ctx, 'revocation sequences', ['SETUP', 'AH '+x('D'), 'AT '+x('D')+' '+x('a')+' 0 -', 'AT '+x('D')+' '+x('b')+' 1 '+x('a'), 'AT '+x('D')+' '+x('c')+' 0 '+x('b'), 'AA '+x('S'), 'AT '+x('S')+' '+x('p')+' 0 -', 'UPD', 'KG '+x('D::b'), 'KG '+x('D::c && S::p'), 'EN 1 '+x('D::a'), 'EN 1 '+x('D::c')],
            ['RK '+x('D::a'), 'RK '+x('D::c'), 'PR '+x('D::a'), 'PR '+x('*'), 'DT '+x('D')+' '+x('a'), 'DD '+x('S'), 'UPD', 'RF 0 1', 'RF 1 0', 'EN 99 '+x('D::b')],
            5, ['DE 0 0', 'DE 0 1', 'DE 1 0', 'DE 1 1', 'DE 0 2', 'DE 1 2', 'DE 0 3', 'DE 1 3'] + ['DE 0 4', 'DE 1 4'], extra_oracle=held_after_prune, claims=lambda op, a, b: op in ('DE', 'RF', 'PR'))
    hc.vm_crosscheck(ctx, H, model)
    hc.finish(ctx, f'{n} random histories biased to rekey^k . prune . refresh and attribute/dimension deletion . update . refresh, both refresh flags; '
              'non-trivial = a rekey, then a prune or deletion, then a refresh and a decapsulation')

replay = hc.replay
