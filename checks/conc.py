"""Shared helper: run harness/src/bin/concd.rs in one of its modes and collect the values that must be pairwise distinct."""
import vf


def run(ctx, args, config='default', timeout=3000):
    import subprocess
    try:
        r = vf.sh([vf.harness_bin('concd', config)] + [str(a) for a in args], timeout=timeout)
        lines = r.stdout.strip().split('\n')
    except subprocess.TimeoutExpired as e:
        so = e.stdout.decode() if isinstance(e.stdout, bytes) else (e.stdout or '')
        lines = so.strip().split('\n') + [f'FAIL the run did not finish within {timeout} s: some call on the shared instance never returns']
    vals = {}
    for l in lines:
        if l.startswith('VAL '):
            _, k, v = l.split(' '); vals.setdefault(k, []).append(v)
    fails = [l for l in lines if l.startswith('FAIL')]
    done = [l for l in lines if l.startswith('OK thread')]
    dup = {}
    for k, v in vals.items():
        seen = {}
        for i, x in enumerate(v):
            if x in seen: dup[k] = (x, seen[x], i); break
            seen[x] = i
    return vals, dup, fails, done


def burst(ctx, instances, threads, calls, kind=None, what=''):
    """instances created in their own threads, first used by `threads` threads at once; values pooled over all instances"""
    if getattr(ctx, 'conc_dead', False): return      # an earlier run never returned: reported already, do not wait again
    args = ['burst', instances, threads, calls] + ([kind] if kind is not None else [])
    vals, dup, fails, done = run(ctx, args, timeout=120 + instances * threads * calls // 60)      # a call that never returns keeps the process alive
    tot = sum(len(v) for v in vals.values()); ctx.evaluations += tot; ctx.traces += tot
    mode = ' '.join(str(a) for a in args)
    ctx.cov.setdefault('bursts', []).append({'mode': mode, 'values': {k: len(v) for k, v in vals.items()}})
    ctx.ob('freshness', f'concd {mode}: {instances} instances created by {instances} different threads, each first used by {threads} threads at once, {calls} calls per thread{what}: every call succeeds, {tot} values pairwise distinct over all instances',
           not dup and not fails and len(done) == instances * threads, (str(dup)[:300] + ' ' + ' '.join(fails[:2]))[:600])
    if any('did not finish within' in f for f in fails): ctx.conc_dead = True
    if fails or len(done) != instances * threads:
        vf.violation(ctx, 'concurrent first use of fresh instances: ' + (fails[0] if fails else f'only {len(done)} of {instances * threads} threads finished'), {'mode': mode, 'config': 'default', 'output': '\n'.join(fails[-10:])})
    if dup:
        k = sorted(dup)[0]
        vf.violation(ctx, f'{k} value {dup[k][0][:24]}.. was produced twice (values #{dup[k][1]} and #{dup[k][2]}) over instances created by different threads / threads sharing an instance', {'mode': mode, 'config': 'default', 'kind': k, 'value': dup[k][0]})


def volume(ctx, threads, calls):
    """hundreds of thousands of encapsulations over a few instances and threads, compared inside the harness"""
    if getattr(ctx, 'conc_dead', False): return
    import subprocess
    try: r = subprocess.run([vf.harness_bin('concd'), 'volume', str(threads), str(calls)], capture_output=True, text=True, timeout=600)
    except subprocess.TimeoutExpired:
        ctx.ob('freshness', f'concd volume {threads} {calls} returns', False, 'did not finish within 600 s'); ctx.conc_dead = True
        vf.violation(ctx, 'the volume run of encapsulations did not finish within 600 s', {'mode': f'volume {threads} {calls}', 'config': 'default'}); return
    lines = r.stdout.split('\n'); tot = [l for l in lines if l.startswith('VOLUME ')]
    dup = [l for l in lines if l.startswith('DUPV ')]; fails = [l for l in lines if l.startswith('FAIL ')]
    n = int(tot[0].split(' ')[1]) if tot else 0
    ctx.evaluations += 3 * n; ctx.traces += n
    ctx.cov.setdefault('bursts', []).append({'mode': f'volume {threads} {calls}', 'values': {'secret': n, 'tag': n, 'trap': n}})
    ctx.ob('freshness', f'concd volume {threads} {calls}: {n} encapsulations by {threads} threads over 8 instances under one public key: all secrets, all tags, all first traps pairwise distinct', bool(tot) and not dup and not fails and n == threads * calls, ' '.join((dup + fails)[:2])[:400])
    if dup:
        f = dup[0].split(' ')
        vf.violation(ctx, f'{f[1]} value {f[2][:24]}.. was produced twice (calls {f[4]} and {f[6]}) in a run of {n} encapsulations', {'mode': f'volume {threads} {calls}', 'config': 'default', 'kind': f[1], 'value': f[2], 'output': '\n'.join(dup[:5])})
    elif fails or not tot or n != threads * calls:
        vf.violation(ctx, 'volume run of encapsulations: ' + (fails[0] if fails else 'incomplete output'), {'mode': f'volume {threads} {calls}', 'config': 'default', 'output': '\n'.join(fails[:5])})


def poison(ctx, n):
    """a thread dies while holding the generator's guard; the instance may refuse later calls, what it still hands out is fresh"""
    if getattr(ctx, 'conc_dead', False): return
    vals, dup, fails, done = run(ctx, ['poison', n], timeout=300)
    tot = sum(len(v) for v in vals.values()); ctx.evaluations += tot + 10 * n
    ctx.ob('freshness', f'concd poison {n}: on two instances a thread panics while holding the generator guard, then {5 * n} calls of five kinds each: refused or fresh - {tot} values handed out afterwards, pairwise distinct ({" ".join(d.split("(")[-1].rstrip(")") for d in done)[:160]})', not dup and not fails and len(done) == 2, (str(dup)[:300] + ' ' + ' '.join(fails[:2]))[:500])
    if dup:
        k = sorted(dup)[0]
        vf.violation(ctx, f'after a thread died while holding the generator guard, {k} value {dup[k][0][:24]}.. was handed out twice (values #{dup[k][1]} and #{dup[k][2]})', {'mode': f'poison {n}', 'config': 'default', 'kind': k, 'value': dup[k][0]})
    elif fails or len(done) != 2:
        vf.violation(ctx, 'poisoned-generator run: ' + (fails[0] if fails else 'incomplete output'), {'mode': f'poison {n}', 'config': 'default'})
