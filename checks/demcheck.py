"""PKE / encrypted-header campaign shared by C12 (round trip + authentication) and C07 (non-malleability of the DEM layer).
Implementation side: harness/src/bin/demd.rs.  Model side: coq/Dem.v evaluated inside Coq on its toy instance."""
import subprocess, os, re
import vf


class Demd:
    def __init__(s):
        s.p = subprocess.Popen([vf.harness_bin('demd')], stdin=subprocess.PIPE, stdout=subprocess.PIPE, text=True)
        s.n = 0
    def ask(s, l):
        s.p.stdin.write(l + '\n'); s.p.stdin.flush(); s.n += 1
        return s.p.stdout.readline().strip()
    def close(s): s.p.stdin.close(); s.p.wait()


def hx(b): return 'empty' if b == b'' else b.hex()
def opt(b): return '-' if b is None else hx(b)


def positions(n, quick, head=120, tail=24):
    if n <= head + tail or not quick: return range(n)
    return list(range(head)) + list(range(n - tail, n))


def campaign(ctx, malleability_only=False):
    d = Demd(); rng = ctx.rng
    hits = []; hist = {}
    def note(k): hist[k] = hist.get(k, 0) + 1
    lens = [0, 1, 15, 16, 17, 31, 32, 33, 70, 255, 256, 257, 4095, 4096, 4097] + ([] if ctx.quick() else [65536] + list(range(2, 70)))
    scen = []          # scenarios also evaluated in the Coq model: (kind, args..., impl class)
    for L in lens:
        pt = bytes(rng.randrange(256) for _ in range(L))
        r = d.ask('PKE ' + opt(pt) if L else 'PKE -').split(' ')
        enc, ctx_ = r[1], bytes.fromhex(r[2])
        if len(ctx_) != L + 28: hits.append((f'PKE ciphertext of a {L}-byte plaintext has {len(ctx_)} bytes', {'enc': enc, 'ctx': ctx_.hex()}))
        if not malleability_only:
            o = d.ask(f'PKEDEC 1 {enc} {hx(ctx_)}'); note('pke roundtrip ' + o.split(':')[0])
            if o != 'OK:' + hx(pt): hits.append((f'PKE round trip of a {L}-byte plaintext returned {o[:60]}', {'enc': enc, 'ctx': ctx_.hex(), 'plaintext': pt.hex()}))
            o = d.ask(f'PKEDEC 0 {enc} {hx(ctx_)}'); note('pke unauthorized ' + o.split(':')[0])
            if o != 'NONE': hits.append((f'PKE decryption with an unauthorized key returned {o[:60]}', {'enc': enc, 'ctx': ctx_.hex()}))
            if L <= 70: scen.append(('pke', L, 'none', 0, 1, 'ok')); scen.append(('pke', L, 'none', 0, 0, 'none'))
        n = len(ctx_)
        trunc = [k for k in range(n) if k <= 80 or k >= n - 20] if ctx.quick() or n > 400 else range(n)
        for k in trunc:
            o = d.ask(f'PKEDEC 1 {enc} {hx(ctx_[:k])}'); note('pke truncated ' + o.split(':')[0])
            if o != 'ERR': hits.append((f'PKE ciphertext truncated to {k} of {n} bytes: {o[:60]}', {'enc': enc, 'ctx': ctx_[:k].hex()}))
            if L <= 33 and k in (0, 5, 11, 12, 27, n - 1): scen.append(('pke', L, 'trunc', k, 1, o.split(':')[0].lower()))
        for i in positions(n, ctx.quick()):
            m = ctx_[:i] + bytes([ctx_[i] ^ (1 << rng.randrange(8))]) + ctx_[i + 1:]
            o = d.ask(f'PKEDEC 1 {enc} {hx(m)}'); note('pke byte altered ' + o.split(':')[0])
            if o != 'ERR': hits.append((f'PKE ciphertext with byte {i} altered: {o[:60]}', {'enc': enc, 'ctx': m.hex()}))
            if L <= 17 and i in (0, 11, 12, n - 1): scen.append(('pke', L, 'flip', i, 1, o.split(':')[0].lower()))
        o = d.ask(f'PKEDEC 1 {enc} {hx(ctx_ + bytes([0]))}'); note('pke extended ' + o.split(':')[0])
        if o != 'ERR': hits.append((f'PKE ciphertext extended by one byte: {o[:60]}', {'enc': enc, 'ctx': (ctx_ + b"\0").hex()}))
    # a plaintext of megabytes: structural mutants at block granularity (a chunked / streamed DEM must bind order, count and end)
    big = 2 * 1024 * 1024 + 4321 if ctx.quick() else 5 * 1024 * 1024 + 77
    o = d.ask(f'PKEBIG {big}').split(' ')
    note('pke megabyte-size structural mutants ' + ('rejected' if len(o) >= 4 and o[3] == '-' else 'ACCEPTED'))
    if len(o) < 4 or o[0] != 'BIG': hits.append((f'PKE encryption of a {big}-byte plaintext: {" ".join(o)[:80]}', {'big': big}))
    elif o[3] != '-': hits.append((f'PKE ciphertext of a {big}-byte plaintext: ' + o[3].replace('_', ' ')[:300], {'big': big, 'accepted': o[3].replace('_', ' ')}))
    mds = [None, b'', b'm', bytes(15), bytes(range(16)), bytes(17), bytes(rng.randrange(256) for _ in range(300))]
    ads = [None, b'', b'a', b'ad', b'ad2', bytes(40)]
    for md in mds:
        for ad in ads:
            r = d.ask(f'HDR {opt(md)} {opt(ad)}').split(' ')
            enc, emd, sec = r[1], r[2], r[3]
            emdb = None if emd == '-' else (b'' if emd == 'empty' else bytes.fromhex(emd))
            if not malleability_only:
                for ad2 in ads:
                    same = (ad or b'') == (ad2 or b'')
                    o = d.ask(f'HDRDEC 1 {enc} {emd} {opt(ad2)}')
                    exp = f'OK:{sec}:{opt(md)}'
                    note(('header same-ad ' if same else 'header other-ad ') + o.split(':')[0])
                    if md is None or same:
                        if o != exp: hits.append((f'header round trip (metadata {opt(md)[:20]}, ad {opt(ad)} generated / {opt(ad2)} presented): got {o[:80]}, expected {exp[:80]}', {'enc': enc, 'emd': emd, 'ad': opt(ad2)}))
                    elif o != 'ERR': hits.append((f'header decrypted with different authentication data ({opt(ad)} vs {opt(ad2)}): {o[:80]}', {'enc': enc, 'emd': emd, 'ad': opt(ad2)}))
                    if len(md or b'') <= 17 and len(ad or b'') <= 3 and len(ad2 or b'') <= 3: scen.append(('hdr', md, ad, ad2, 1, o.split(':')[0].lower()))
                o = d.ask(f'HDRDEC 0 {enc} {emd} {opt(ad)}'); note('header unauthorized ' + o.split(':')[0])
                if o != 'NONE': hits.append((f'header decryption with an unauthorized key returned {o[:60]}', {'enc': enc, 'emd': emd}))
                # serialization of the header: absent and empty metadata are the same wire value
                s1 = d.ask(f'HDRSER {enc} {emd}').split(' ')
                if s1[1] != '1': hits.append(('EncryptedHeader::length() != serialize().len()', {'enc': enc, 'emd': emd}))
                back = d.ask(f'HDRDE {s1[0]}').split(' ')
                if back[0] != enc or back[1] != emd: hits.append(('EncryptedHeader does not deserialize to itself', {'enc': enc, 'emd': emd, 'got': back[1][:60]}))
                # every strict prefix of the SERIALIZED header (also the cut exactly after the encapsulation) must be rejected
                if md is not None and ad in (None, b'ad'):
                    sb = bytes.fromhex(s1[0]); n = len(sb)
                    cuts = range(n) if n < 400 else list(range(0, n, 37)) + list(range(n - len(emdb or b'') - 6, n))
                    for k in cuts:
                        o = d.ask(f'HDRDECS 1 {sb[:k].hex() or "00"[:0] or "-"} {opt(ad)}') if k else 'UNPARSABLE'
                        note('serialized header truncated ' + o.split(':')[0])
                        if o.split(':')[0] not in ('UNPARSABLE', 'ERR'):
                            hits.append((f'serialized header truncated to {k} of {n} bytes is accepted: {o[:70]}', {'enc': enc, 'emd': emd, 'serialized_prefix_len': k, 'ad': opt(ad)}))
            if emdb is not None and ad in (None, b'ad'):
                n = len(emdb)
                for k in (range(n) if n < 120 or not ctx.quick() else list(range(40)) + list(range(n - 20, n))):
                    t = emdb[:k]
                    o = d.ask(f'HDRDEC 1 {enc} {hx(t)} {opt(ad)}'); note('metadata truncated ' + o.split(':')[0])
                    if o != 'ERR': hits.append((f'encrypted metadata truncated to {k} of {n} bytes: {o[:60]}', {'enc': enc, 'emd': hx(t), 'ad': opt(ad)}))
                for i in positions(n, ctx.quick(), 60, 20):
                    m = emdb[:i] + bytes([emdb[i] ^ (1 << rng.randrange(8))]) + emdb[i + 1:]
                    o = d.ask(f'HDRDEC 1 {enc} {hx(m)} {opt(ad)}'); note('metadata byte altered ' + o.split(':')[0])
                    if o != 'ERR': hits.append((f'encrypted metadata with byte {i} altered: {o[:60]}', {'enc': enc, 'emd': m.hex(), 'ad': opt(ad)}))
    if not malleability_only:
        s0 = d.ask(f'HDRSER {enc} -').split(' ')[0]; s1 = d.ask(f'HDRSER {enc} empty').split(' ')[0]
        if s0 != s1: hits.append(('absent and empty encrypted metadata serialize differently', {'enc': enc}))
    ctx.evaluations += d.n; ctx.traces += d.n
    d.close()
    for k, v in hist.items(): ctx.hist['dem: ' + k] = v
    if hits:
        what, rep = hits[0]; rep['violations_total'] = len(hits)
        vf.violation(ctx, what, rep)
    if not malleability_only: model_check(ctx, scen)
    return hits


def model_check(ctx, scen):
    """evaluates a sample of the scenarios in the Coq model (Dem.v on its toy instance, vm_compute) and compares outcome classes"""
    def bl(b): return '[' + ';'.join(str(x) for x in b) + ']%N' if b else '[]'
    def ob(b): return 'None' if b is None else f'(Some {bl(b)})'
    pick = scen[:: max(1, len(scen) // 120)][:150]
    body = ('From Coq Require Import List NArith.\nFrom CC Require Import Dem.\nImport ListNotations.\n'
            'Definition n12 : bytes := [1;2;3;4;5;6;7;8;9;10;11;12]%N.\n'
            'Definition pkeD := pke_decrypt N toy_kdf (toy_dec hon_all) N N toy_decaps.\nDefinition pkeE := pke_encrypt N toy_kdf toy_enc N.\n'
            'Definition hdrD := header_decrypt N toy_kdf (toy_dec hon_all) N N toy_decaps.\nDefinition hdrG := header_generate N toy_kdf toy_enc N.\n'
            'Definition flip (i : nat) (l : bytes) : bytes := firstn i l ++ match skipn i l with x :: t => (x + 1)%N :: t | [] => [] end.\n'
            'Definition c1 (o : dres (option bytes)) (pt : bytes) : N := match o with DOk (Some p) => if beq_bytes p pt then 1 else 9 | DOk None => 2 | DErr => 3 | DPanic => 4 end.\n'
            'Definition c2 (o : dres (option (cleartext N))) (md : option bytes) : N := match o with DOk (Some c) => match c_metadata c, md with Some a, Some b => if beq_bytes a b then 1 else 9 | None, None => 1 | _, _ => 9 end | DOk None => 2 | DErr => 3 | DPanic => 4 end.\n'
            'Eval vm_compute in [\n')
    rows = []; exp = []
    code = {'ok': 1, 'none': 2, 'err': 3, 'panic': 4}
    for s in pick:
        if s[0] == 'pke':
            _, L, mut, k, auth, cls = s
            pt = bl([(7 * i + 3) % 256 for i in range(L)])
            c = f'(snd (pkeE 1007 7 n12 {pt}))'
            if mut == 'trunc': c = f'(firstn {k} {c})'
            elif mut == 'flip': c = f'(flip {k} {c})'
            rows.append(f'c1 (pkeD {7 if auth else 8} (7%N, {c})) {pt}')
        else:
            _, md, ad, ad2, auth, cls = s
            rows.append(f'c2 (hdrD 7 (snd (hdrG 1007 7 n12 {ob(md)} {ob(ad)})) {ob(ad2)}) {ob(md)}')
        exp.append(code.get(cls, 0))
    body += ';\n'.join(rows) + '].\n'
    os.makedirs(vf.ROOT + '/.tmp', exist_ok=True)
    p = f'{vf.ROOT}/.tmp/vmdem{ctx.prop.lower()}.v'; open(p, 'w').write(body)
    r = vf.sh(f'timeout 600 coqc -noglob -R {vf.COQ} CC {p}', cwd=vf.ROOT + '/.tmp')
    m = re.search(r'=\s*\[(.*?)\]', r.stdout.replace('\n', ' '))
    got = [int(x) for x in re.findall(r'\d+', m.group(1))] if m else []
    bad = [(pick[i], got[i], exp[i]) for i in range(min(len(got), len(exp))) if got[i] != exp[i]]
    ctx.ob('correspondence', f'Dem.v (toy instance, vm_compute inside Coq) predicts the outcome class of {len(pick)} PKE / header scenarios (round trips, unauthorized, truncations, altered bytes, authentication-data combinations)',
           r.returncode == 0 and len(got) == len(exp) and not bad, (str(bad[:2]) if bad else '') + r.stderr[-300:])


def header_roundtrips(ctx):
    """C13: an EncryptedHeader (metadata absent / EMPTY / short / long, with and without authentication data) serialized and
    deserialized is the same header (same encapsulation bytes, same encrypted metadata), re-serializes to the same bytes
    and opens - through its serialized form - to the same secret and metadata."""
    d = Demd(); bad = []; n = 0
    for md in (None, b'', b'm', bytes(range(15)), bytes(range(16)), bytes(range(17)), bytes(300)):
        for ad in (None, b'ad'):
            r = d.ask(f'HDR {opt(md)} {opt(ad)}').split(' ')
            enc, emd, sec = r[1], r[2], r[3]
            s1 = d.ask(f'HDRSER {enc} {emd}').split(' ')
            back = d.ask(f'HDRDE {s1[0]}').split(' ')
            n += 1
            if s1[1] != '1': bad.append((md, ad, 'length() != serialize().len()'))
            if back[0] != enc or back[1] != emd: bad.append((md, ad, f'deserializes to other content: metadata {back[1][:40]} instead of {emd[:40]}'))
            else:
                s2 = d.ask(f'HDRSER {back[0]} {back[1]}').split(' ')[0]
                if s2 != s1[0]: bad.append((md, ad, 're-serialization differs'))
            o = d.ask(f'HDRDECS 1 {s1[0]} {opt(ad)}')
            exp = f'OK:{sec}:{opt(md)}'
            if o != exp: bad.append((md, ad, f'serialized header opens to {o[:60]} instead of {exp[:60]}'))
            if md is not None:
                o2 = d.ask(f'HDRDECS 1 {s1[0]} {opt(b"other")}')
                if o2 != 'ERR': bad.append((md, ad, f'serialized header opens with other authentication data: {o2[:40]}'))
    ctx.evaluations += d.n; d.close()
    ctx.ob('correspondence', f'EncryptedHeader round trips: {n} headers (metadata absent / empty / 1 / 15 / 16 / 17 / 300 bytes x authentication data absent / present): same content, same bytes, same opening through the serialized form', not bad, str(bad[:2])[:500])
    if bad:
        md, ad, what = bad[0]
        vf.violation(ctx, f'encrypted header with metadata {opt(md)[:20]} / authentication data {opt(ad)}: {what}', {'metadata': opt(md), 'ad': opt(ad), 'what': what, 'violations_total': len(bad)})


MX_KEYS = ["D::a", "D::b", "D::c && S::h", "D::d", "S::l", "*"]
MX_POLS = ["D::a", "D::a || D::c", "D::b || D::d", "D::b || D::a", "D::d && S::l", "S::h && D::b || D::c"]


def matrix(ctx, reps=None):
    """PKE and header layers over single / multi-target / hybridized / MIXED policies and six keys, several times each (the
    internal shuffle of decapsulation is random): who decrypts is what the name-level reference semantics says."""
    import spec, hist
    x = hist.x
    scr = ['SETUP', f'AA {x("D")}'] + [f"AT {x('D')} {x(n)} {h} -" for n, h in (('a', 0), ('b', 1), ('c', 0), ('d', 1))]
    scr += [f'AH {x("S")}', f"AT {x('S')} {x('l')} 0 -", f"AT {x('S')} {x('h')} 1 {x('l')}", 'UPD']
    scr += [f'KG {x(k)}' for k in MX_KEYS] + [f'EN 1 {x(p)}' for p in MX_POLS]
    n0 = len(scr)
    scr += [f'DE {k} {e}' for k in range(len(MX_KEYS)) for e in range(len(MX_POLS))]
    pred = spec.predict(scr)
    exp = {(k, e): pred[n0 + k * len(MX_POLS) + e] == 'SOME' for k in range(len(MX_KEYS)) for e in range(len(MX_POLS))}
    reps = reps or (8 if ctx.quick() else 60)
    d = Demd(); out = d.ask(f'MATRIX {reps}'); d.close()
    bad = []; n = 0; nz = 0; nc = 0
    for it in out.split(';'):
        f = it.split(' ')
        if f[0] == 'MXZ': nz += 1; continue
        if f[0] == 'MXC': nc += 1; continue
        if f[0] == 'MXT':
            got = 'a PANIC on' if f[4:5] == ['PANIC'] else 'a secret / plaintext from'
            bad.append((f[3], MX_KEYS[int(f[1])], MX_POLS[int(f[2])], 0, got + ' a ciphertext whose encapsulation was altered', 'an error or "not authorized"')); continue
        if len(f) != 6: continue
        k, e = int(f[1]), int(f[2]); n += 2
        for layer, got in (('PKE', f[4]), ('header', f[5])):
            want = 'OK' if exp[(k, e)] else 'NONE'
            if got != want: bad.append((layer, MX_KEYS[k], MX_POLS[e], int(f[3]), got, want))
    ctx.evaluations += n
    ctx.ob('correspondence', f'PKE / header matrix: 6 keys x 6 policies (single, classic multi-target, hybridized multi-target, mixed, conjunctions) x {reps} trials x 2 layers = {n} decryptions: authorized keys get exactly the plaintext / metadata / secret, the others "not authorized"; {nz} encapsulations cut to zero shares opened by 6 keys x 3 layers, {nc} encapsulations / headers with a count field set to a boundary value (up to 2^64-1) read and opened: an error or "not authorized", never a panic', not bad and n > 0, str(bad[:3]))
    if bad or n == 0:
        layer, k, e, rep, got, want = bad[0] if bad else ('-', '-', '-', 0, out[:80], 'a matrix')
        what = f'{layer} layer: key "{k}" on a ciphertext for "{e}" (trial {rep}): {got}, expected {want}'
        if not bad: what = 'the PKE / header matrix run gave no answer: the harness process died (abort on an allocation request, stack overflow, ...) while reading or opening ciphertexts whose encapsulation was altered (count fields set to boundary values, shares cut)'
        vf.violation(ctx, what, {'matrix': True, 'key_policy': k, 'encryption_policy': e, 'layer': layer, 'got': got, 'expected': want, 'violations_total': len(bad)})


def big_metadata(ctx):
    """headers whose metadata is tens of kilobytes to megabytes (around 64 KiB and 1 MiB boundaries): serialization round
    trip, decryption, authentication data, unauthorized key, and the metadata key differs from the returned secret for
    every record of a possibly segmented encryption"""
    sizes = [65507, 65508, 65536, 70000, 131100] + ([1048576 + 5] if ctx.quick() else [1048576 + 5, 3 * 1048576 + 1])
    d = Demd(); bad = []
    for n in sizes:
        o = d.ask(f'HDRBIG {n}').split(' ')
        if len(o) < 3 or o[0] != 'HB': bad.append((n, ' '.join(o)[:120]))
        elif o[2] != '-': bad.append((n, o[2].replace('_', ' ')))
    ctx.evaluations += len(sizes); d.close()
    ctx.ob('correspondence', f'headers with {len(sizes)} large metadata sizes ({sizes[0]} .. {sizes[-1]} bytes): round trip through the serialized form, authentication, and no record of the encrypted metadata opens under the returned secret', not bad, str(bad[:2])[:400])
    if bad: vf.violation(ctx, f'encrypted header with {bad[0][0]} bytes of metadata: {bad[0][1][:200]}', {'bigmeta': bad[0][0], 'what': bad[0][1], 'violations_total': len(bad)})


def cleartext_roundtrips(ctx):
    """C13: the CLEARTEXT header (secret + metadata returned by decrypt) has the announced length, is read back to the same
    content, re-serializes to the same bytes; both header types can be read from a buffer that continues after them.
    Metadata absent / empty / 1 / 127 / 128 / 300 / 20000 bytes (one- and two-byte length prefixes)."""
    d = Demd(); bad = []
    sizes = [None, 0, 1, 127, 128, 129, 300, 16383, 16384, 20000]
    for n in sizes:
        o = d.ask('CLR ' + ('-' if n is None else opt(bytes((i * 7) % 251 for i in range(n))))).split(' ')
        if len(o) < 2 or o[0] != 'CL': bad.append((n, ' '.join(o)[:120]))
        elif o[1] != '-': bad.append((n, o[1].replace('_', ' ')))
    ctx.evaluations += len(sizes); d.close()
    ctx.ob('correspondence', f'cleartext header round trips for {len(sizes)} metadata sizes (absent .. 20000 bytes): announced length, same content, same bytes; encrypted and cleartext headers read from a buffer that continues', not bad, str(bad[:2])[:400])
    if bad: vf.violation(ctx, f'cleartext / encrypted header with {bad[0][0]} bytes of metadata: {bad[0][1][:200]}', {'cleartext': bad[0][0], 'what': bad[0][1], 'violations_total': len(bad)})
