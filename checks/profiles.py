"""Generators (operation-weight profiles) of the history-shaped checks."""
import hist

def g(w, **kw): return lambda rng: hist.gen_history(rng, w, **dict(kw, exotic=kw.get('exotic', False) and rng.random() < 0.25))

# C03: edits everywhere
C03 = g(dict(add_dim=5, del_dim=4, add_attr=14, del_attr=12, rename=8, disable=3, upd=14, rekey=2, prune=1, keygen=12, refresh=8, encaps=14, decaps=16, recaps=1, rt=2, mpk=1), exotic=True)
# C04: rotation; no prune / deletions
C04 = g(dict(rfbad=3, add_dim=1, del_dim=1, add_attr=3, del_attr=3, rename=1, disable=2, upd=5, rekey=18, prune=0, keygen=10, refresh=16, encaps=16, decaps=20, recaps=1, rt=2, mpk=2))
# C05: revocation
C05 = g(dict(rfbad=2, add_dim=1, del_dim=3, add_attr=3, del_attr=8, rename=1, disable=3, upd=8, rekey=14, prune=12, keygen=8, refresh=16, encaps=12, decaps=18, recaps=1, rt=2, mpk=1))
# C06: disabling
C06 = g(dict(snap=0, restore=0, add_dim=1, del_dim=1, add_attr=3, del_attr=1, rename=4, disable=14, upd=12, rekey=10, prune=5, keygen=6, refresh=8, encaps=20, decaps=10, recaps=2, rt=5, mpk=5))
# C09: everything, with invalid arguments
C09 = g(dict(rfbad=6, snap=2, restore=2, add_dim=6, del_dim=4, add_attr=10, del_attr=7, rename=6, disable=5, upd=10, rekey=9, prune=5, keygen=10, refresh=10, encaps=12, decaps=6, recaps=4, rt=2, mpk=2), exotic=True)
C10 = g(dict(hint=5, rfbad=6, snap=4, restore=5, add_dim=4, del_dim=3, add_attr=10, del_attr=8, rename=3, disable=10, upd=14, rekey=14, prune=4, keygen=8, refresh=12, encaps=4, decaps=2, recaps=1, rt=1, mpk=1))
C11 = g(dict(snap=0, restore=0, add_dim=3, del_dim=1, add_attr=10, del_attr=3, rename=2, disable=2, upd=10, rekey=10, prune=3, keygen=10, refresh=10, encaps=16, decaps=8, recaps=3, rt=6, mpk=2))
C13 = g(dict(snap=2, restore=2, add_dim=3, del_dim=2, add_attr=8, del_attr=4, rename=2, disable=4, upd=10, rekey=8, prune=3, keygen=10, refresh=8, encaps=10, decaps=10, recaps=3, rt=30, mpk=3), multibyte=True, exotic=True)
# C16 (history part): rotations interleaved with disabling, pruning and updates; no backup/restore (a restored master key republishes by design)
C16H = g(dict(snap=0, restore=0, add_dim=1, del_dim=1, add_attr=3, del_attr=2, rename=1, disable=8, upd=12, rekey=22, prune=6, keygen=3, refresh=3, encaps=4, decaps=2, recaps=1, rt=4, mpk=6))
C17 = g(dict(rfbad=8, snap=3, restore=3, add_dim=1, del_dim=1, add_attr=3, del_attr=3, rename=1, disable=1, upd=6, rekey=6, prune=3, keygen=20, refresh=20, encaps=3, decaps=3, recaps=0, rt=12, mpk=1))
C18 = g(dict(add_dim=1, del_dim=2, add_attr=3, del_attr=5, rename=1, disable=8, upd=10, rekey=12, prune=8, keygen=8, refresh=6, encaps=14, decaps=10, recaps=22, rt=2, mpk=4))

# C01/C02 dynamic part: everything that can change who opens what
DYN = g(dict(snap=2, restore=2, add_dim=2, del_dim=2, add_attr=8, del_attr=8, rename=4, disable=2, upd=12, rekey=8, prune=3, keygen=10, refresh=10, encaps=14, decaps=20, recaps=2, rt=8, mpk=1))


def static_history(rng, multibyte=False):
    """C01/C02: a structure is built (with some edits first so that ids are not 0..n-1), updated once, then only
    key generations, encapsulations and all-pairs decapsulations: the pure cover relation."""
    x = hist.x
    out = ['SETUP']; sim = hist.Sim()
    names = ['a', 'b', 'c', 'd', 'e'] + (['é', '名'] if multibyte else [])
    for d in rng.sample(hist.DIMS + ['T'], rng.randint(1, 4)):
        k = rng.choice(['AA', 'AH']); out.append(f'{k} {x(d)}'); sim.dims[d] = []; sim.kinds[d] = k
        for a in rng.sample(names, rng.randint(0, 4)):
            aft = '-'
            if k == 'AH' and sim.dims[d] and rng.random() < 0.6: aft = x(rng.choice(sim.dims[d]))
            out.append(f"AT {x(d)} {x(a)} {rng.choice('001')} {aft}"); sim.dims[d].append(a)
    for _ in range(rng.randint(0, 3)):      # a few edits before the update
        d = rng.choice(list(sim.dims))
        r = rng.random()
        if sim.dims[d] and r < 0.35:
            a = rng.choice(sim.dims[d]); out.append(f'DT {x(d)} {x(a)}'); sim.dims[d].remove(a)
        elif sim.dims[d] and r < 0.7:
            # a rename (in a hierarchy the attribute must keep its rank)
            a = rng.choice(sim.dims[d]); b = rng.choice(['g', 'h', 'k'] + names)
            if b not in sim.dims[d]: out.append(f'RN {x(d)} {x(a)} {x(b)}'); sim.dims[d][sim.dims[d].index(a)] = b
        else:
            a = rng.choice(names + ['f'])
            if a not in sim.dims[d]: out.append(f"AT {x(d)} {x(a)} {rng.choice('01')} -"); sim.dims[d].append(a)
    out.append('UPD'); sim.nmpk += 1
    nk = rng.randint(2, 5); ne = rng.randint(3, 8)
    for _ in range(rng.randint(2, 6)): out.append(f'AP {x(hist.gen_policy(rng, sim, 3, p_bad=0.1))}')
    for _ in range(nk): out.append(f'KG {x(hist.gen_policy(rng, sim, 3, p_bad=0.02))}')
    for _ in range(ne): out.append(f'EN 1 {x(hist.gen_policy(rng, sim, 2, p_bad=0.02))}')
    for k in range(nk):
        for e in range(ne): out.append(f'DE {k} {e}')
    return out


def identity_scenario(rng):
    """Directed scenario for "an attribute is what it was when it was created": an attribute gets keys and an
    encapsulation, is deleted (alone or with its dimension), the master key possibly goes through a serialization round
    trip or a backup/restore, a NEW attribute is created (same or different name, any hint), and the old keys and
    encapsulations meet the new attribute: the old key must not open what is encrypted for the newcomer, the refreshed
    old key neither, the newcomer's hint must be honoured, and a key for the newcomer must not open the old encapsulation."""
    x = hist.x
    out = ['SETUP']; nmpk = 1; nusk = 0; nenc = 0
    kind = rng.choice(['AA', 'AH']); out.append(f'{kind} {x("D")}')
    base = rng.sample(['a', 'b', 'c'], rng.randint(1, 3))
    for a in base: out.append(f"AT {x('D')} {x(a)} {rng.choice('01')} -")
    other = rng.random() < 0.5
    if other: out += [f"{rng.choice(['AA', 'AH'])} {x('S')}", f"AT {x('S')} {x('s')} {rng.choice('01')} -"]
    victim = base[-1] if rng.random() < 0.7 else rng.choice(base)      # the last one created has the largest identifier
    out.append('UPD'); nmpk += 1
    pol = f'D::{victim}' + (' && S::s' if other and rng.random() < 0.4 else '')
    out.append(f'KG {x(pol)}'); nusk += 1
    if rng.random() < 0.5: out.append(f"KG {x('D::' + rng.choice(base))}"); nusk += 1
    out.append(f'EN {nmpk - 1} {x(pol)}'); nenc += 1
    if rng.random() < 0.4: out += [f'RK {x("D::" + victim)}', f"RF 0 {rng.choice('01')}"]; nmpk += 1
    if rng.random() < 0.25 and not other: out += [f'DD {x("D")}', f'{kind} {x("D")}']; base = []
    else: out.append(f'DT {x("D")} {x(victim)}'); base = [a for a in base if a != victim]
    if rng.random() < 0.5: out.append('UPD'); nmpk += 1
    trip = rng.choice(['RT MSK', 'RT MSK', 'SNAP', 'none', 'RT2'])
    if trip == 'RT MSK': out.append('RT MSK')
    elif trip == 'RT2': out += ['RT MSK', 'RT MSK']
    elif trip == 'SNAP': out += ['SNAP', f"AT {x('D')} {x('t')} {rng.choice('01')} -", 'REST 0']
    new = victim if rng.random() < 0.4 else 'n'
    out.append(f"AT {x('D')} {x(new)} {rng.choice('01')} {x(rng.choice(base)) if base and kind == 'AH' and rng.random() < 0.5 else '-'}")
    out.append('UPD'); nmpk += 1
    if rng.random() < 0.3: out.append('RT MSK')
    if rng.random() < 0.6: out.append(f"RF 0 {rng.choice('01')}")
    npol = f'D::{new}'
    out.append(f'EN {nmpk - 1} {x(npol)}'); nenc += 1
    out.append(f'KG {x(npol)}'); nusk += 1
    if rng.random() < 0.5: out.append(f"RF 0 {rng.choice('01')}")
    out.append(f'RT USK {nusk - 1}')
    for k in range(nusk):
        for e in range(nenc): out.append(f'DE {k} {e}')
    return out


def with_scenarios(gen, share=0.15):
    """mixes the directed identity / late-key scenarios into a random profile"""
    def pick(rng):
        r = rng.random()
        return identity_scenario(rng) if r < 0.45 else late_key_scenario(rng) if r < 0.7 else refused_edit_scenario(rng) if r < 0.88 else replica_scenario(rng)
    return lambda rng: pick(rng) if rng.random() < share else gen(rng)


def replica_scenario(rng):
    """Directed: two REPLICAS of one master key (a backup is taken and restored later - same signing key, same structure).
    Each replica then receives the same two additions in a DIFFERENT order, so that equal names get different identifiers.
    A key issued by replica A after the backup is unknown to replica B: B's refresh must refuse it, and whatever happens
    the key must open nothing of what B encrypts beyond its policy (B's numbering gives A's right names another meaning)."""
    x = hist.x; h = lambda: rng.choice('01')
    out = ['SETUP', f"AH {x('S')}", f"AT {x('S')} {x('l')} {h()} -", f"AT {x('S')} {x('t')} {h()} {x('l')}",
           f"AA {x('D')}", f"AT {x('D')} {x('a')} {h()} -", 'UPD', 'SNAP']; nmpk = 2
    add_x = f"AT {x('D')} {x('x')} {h()} -"; add_u = f"AT {x('S')} {x('u')} {h()} {x('t')}"
    pols = ['D::x && S::l', 'D::a', 'D::x', 'S::l']
    kp = rng.sample(pols, rng.randint(1, 3))
    out += [add_x, add_u, 'UPD'] + [f'KG {x(q)}' for q in kp]; nmpk += 1
    if rng.random() < 0.3: out.append(f'RK {x("D::x")}'); nmpk += 1
    out.append('REST 0')
    out += [add_u, add_x, 'UPD']; nmpk += 1
    eps = ['S::u', 'S::u && D::a', 'D::x && S::t', 'D::x && S::l', 'D::a && S::l']
    ne = 0
    for q in rng.sample(eps, rng.randint(2, len(eps))): out.append(f'EN {nmpk - 1} {x(q)}'); ne += 1
    for k in range(len(kp)):
        out += [f'DE {k} {e}' for e in range(ne)]
        out.append(f"RF {k} {rng.choice('01')}")
        out += [f'DE {k} {e}' for e in range(ne)]
    return out


def rotation_scenario(rng, disable=False):
    """Directed scenario for keys that hold SEVERAL revisions: rotate the rights of a key a few times, refresh it keeping
    its old secrets, put the key (and the master key, the public key, the encapsulations) through serialization round
    trips, optionally disable / prune in between, and refresh / decapsulate again: a multi-revision key read back from
    bytes must still be refreshable with either flag and open what it opened."""
    x = hist.x
    out = ['SETUP']; nmpk = 1; nenc = 0
    kind = rng.choice(['AA', 'AH']); out.append(f'{kind} {x("D")}')
    names = rng.sample(['a', 'b', 'c'], rng.randint(2, 3))
    for a in names: out.append(f"AT {x('D')} {x(a)} {rng.choice('01')} -")
    if rng.random() < 0.5: out += [f"AA {x('S')}", f"AT {x('S')} {x('s')} {rng.choice('01')} -"]
    out.append('UPD'); nmpk += 1
    pol = rng.choice(['*', f'D::{names[0]}', f'D::{names[-1]}', f'D::{names[0]} || D::{names[1]}'])
    out.append(f'KG {x(pol)}'); out.append(f'KG {x("D::" + names[1])}')
    out.append(f'EN {nmpk - 1} {x("D::" + names[0])}'); nenc += 1
    for _ in range(rng.randint(1, 3)):
        out.append(f'RK {x(rng.choice(["*", "D::" + rng.choice(names)]))}'); nmpk += 1
        if rng.random() < 0.6: out.append(f'EN {nmpk - 1} {x("D::" + rng.choice(names))}'); nenc += 1
        if rng.random() < 0.7: out.append(f"RF {rng.choice('01')} 1")
    out.append('RF 0 1')
    out.append(f"RT USK {rng.choice('01')}"); out.append('RT USK 0')
    if rng.random() < 0.4: out.append('RT MSK')
    if disable:
        out += [f"DS {x('D')} {x(rng.choice(names))}", 'UPD']; nmpk += 1
    if rng.random() < 0.4: out.append(f'PR {x("D::" + rng.choice(names))}'); nmpk += 1
    out.append(f"RF 0 {rng.choice('01')}"); out.append(f"RF 1 {rng.choice('01')}")
    out.append(f'RT MPK {nmpk - 1}')
    out.append(f'EN {nmpk - 1} {x("D::" + names[1])}'); nenc += 1
    for a in names: out.append(f'EN {nmpk - 1} {x("D::" + a)}'); nenc += 1      # also for a disabled one: must be refused
    out.append(f'RT ENC {nenc - 1}'); out.append('RT USK 1')
    out.append(f"RF 0 {rng.choice('01')}")
    for k in range(2):
        for e in range(nenc): out.append(f'DE {k} {e}')
    return out


def with_rotation(gen, share=0.1, disable=False):
    """disable: True / False / None (= sometimes)"""
    return lambda rng: rotation_scenario(rng, (rng.random() < 0.4) if disable is None else disable) if rng.random() < share else gen(rng)


def shrink_scenario(rng):
    """C18 directed: an encapsulation with MANY targets, then the master key shrinks (attributes / a dimension deleted,
    secrets pruned, attributes disabled) until it holds fewer rights than the encapsulation has components while at least one
    original target survives; the re-encapsulation must succeed and address exactly the survivors."""
    x = hist.x
    out = ['SETUP', f"{rng.choice(['AA', 'AH'])} {x('D')}"]; nmpk = 1
    n = rng.randint(3, 6); names = [chr(97 + i) for i in range(n)]
    for a in names: out.append(f"AT {x('D')} {x(a)} {rng.choice('001')} -")
    other = rng.random() < 0.3
    if other: out += [f"AA {x('S')}", f"AT {x('S')} {x('s')} 0 -"]
    out.append('UPD'); nmpk += 1
    for a in names[:2]: out.append(f'KG {x("D::" + a)}')
    out.append(f'KG {x("*")}')
    out.append(f'EN {nmpk - 1} {x(" || ".join("D::" + a for a in names))}')
    if rng.random() < 0.4: out.append(f'RK {x("D::" + names[0])}'); nmpk += 1
    keep = rng.randint(1, 2)
    for a in names[keep:]:
        out.append(f"{'DT' if rng.random() < 0.8 else 'DS'} {x('D')} {x(a)}")
    if other and rng.random() < 0.7: out.append(f'DD {x("S")}')
    out.append('UPD'); nmpk += 1
    out.append(f'RC {nmpk - 1} 0')
    out += ['RF 0 1', 'RF 1 0', 'RF 2 1']
    out += [f'DE {k} {e}' for k in range(3) for e in range(2)]
    return out


def late_key_scenario(rng):
    """Directed: encapsulations are made, THEN an attribute is disabled (or the rights are merely rotated) and the master key
    updated, THEN new keys are generated: a key generated late must still open every earlier encapsulation its policy
    covers and whose secret the master key still holds (a disabled attribute keeps decrypting)."""
    x = hist.x
    out = ['SETUP', f"{rng.choice(['AA', 'AH'])} {x('D')}"]; nmpk = 1; nenc = 0
    names = rng.sample(['a', 'b', 'c', 'd'], rng.randint(2, 4))
    for a in names: out.append(f"AT {x('D')} {x(a)} {rng.choice('01')} -")
    other = rng.random() < 0.5
    if other: out += [f"AA {x('S')}", f"AT {x('S')} {x('s')} {rng.choice('01')} -"]
    out.append('UPD'); nmpk += 1
    for a in names:
        out.append(f'EN {nmpk - 1} {x("D::" + a + (" && S::s" if other and rng.random() < 0.3 else ""))}'); nenc += 1
    v = rng.choice(names)
    out.append(f"DS {x('D')} {x(v)}")
    if rng.random() < 0.3: out.append(f"DS {x('D')} {x(rng.choice(names))}")
    out.append('UPD'); nmpk += 1
    pols = [f'D::{v}', '*', f'D::{names[-1]}', f'D::{v} || D::{names[0]}'] + ([f'D::{v} && S::s'] if other else [])
    nk = 0
    for pol in rng.sample(pols, rng.randint(2, len(pols))): out.append(f'KG {x(pol)}'); nk += 1
    if rng.random() < 0.4: out.append('RT MSK')
    out += [f'DE {k} {e}' for k in range(nk) for e in range(nenc)]
    out += [f"RF {k} {rng.choice('01')}" for k in range(nk)]
    out += [f'DE {k} {e}' for k in range(nk) for e in range(nenc)]
    return out


def refused_edit_scenario(rng):
    """Directed: a batch of REFUSED structure edits (rename onto an existing name, duplicate attribute with the other hint,
    duplicate dimension of either kind, unknown 'after', deletion of an unknown name) between the issue of keys and their
    use; a refused edit must leave no trace: afterwards every name still designates the attribute it designated, with its
    rank, hint and status - checked by encapsulating for every attribute and opening with every key, then deleting /
    renaming for real and doing it again."""
    x = hist.x
    out = ['SETUP', f'AH {x("D")}']; nmpk = 1
    hn = rng.sample(['a', 'b', 'c', 'd'], rng.randint(2, 4)); prev = None
    for a in hn:
        out.append(f"AT {x('D')} {x(a)} {rng.choice('01')} {x(prev) if prev and rng.random() < 0.7 else '-'}"); prev = a
    an = rng.sample(['p', 'q', 'r'], rng.randint(1, 3))
    out.append(f'AA {x("S")}')
    for a in an: out.append(f"AT {x('S')} {x(a)} {rng.choice('01')} -")
    out.append('UPD'); nmpk += 1
    atts = [('D', a) for a in hn] + [('S', a) for a in an]
    nk = 0
    for d, a in atts: out.append(f'KG {x(d + "::" + a)}'); nk += 1
    ne = 0
    for d, a in atts: out.append(f'EN {nmpk - 1} {x(d + "::" + a)}'); ne += 1
    # refused edits
    bad = [f'RN {x("D")} {x(hn[0])} {x(hn[-1])}', f'RN {x("D")} {x(hn[-1])} {x(hn[0])}', f'RN {x("S")} {x(an[0])} {x(an[-1])}',
           f"AT {x('D')} {x(hn[0])} 1 -", f"AT {x('D')} {x(hn[-1])} 0 -", f"AT {x('S')} {x(an[0])} 1 -", f"AT {x('S')} {x(an[0])} 0 -",
           f'AA {x("D")}', f'AH {x("D")}', f'AA {x("S")}', f'AH {x("S")}', f"AT {x('D')} {x('z')} 0 {x('nope')}", f'DT {x("D")} {x("nope")}', f'DS {x("S")} {x("nope")}']
    for l in rng.sample(bad, rng.randint(2, 6)): out.append(l)
    if rng.random() < 0.7: out.append('UPD'); nmpk += 1
    if rng.random() < 0.3: out.append('RT MSK')
    for d, a in atts: out.append(f'EN {nmpk - 1} {x(d + "::" + a)}'); ne += 1
    for d, a in atts[:3]: out.append(f'KG {x(d + "::" + a)}'); nk += 1
    out += [f'DE {k} {e}' for k in range(nk) for e in range(ne)][:140]
    # now a real deletion / rename of a name that was the TARGET of a refused rename, update, refresh
    out.append(rng.choice([f'DT {x("D")} {x(hn[-1])}', f'RN {x("D")} {x(hn[-1])} {x("w")}', f'DT {x("S")} {x(an[-1])}']))
    out.append('UPD'); nmpk += 1
    out += [f"RF {k} {rng.choice('01')}" for k in range(min(nk, 5))]
    out += [f'DE {k} {e}' for k in range(min(nk, 5)) for e in range(ne)][:80]
    return out


def mixed_recaps_scenario(rng):
    """C11 directed: an encapsulation over classic AND hybridized targets (hence classic), then the classic targets go away
    (deleted or disabled, master key updated); the re-encapsulation addresses hybridized rights only and must be
    hybridized; and the other way round."""
    x = hist.x
    out = ['SETUP', f"{rng.choice(['AA', 'AH'])} {x('D')}"]; nmpk = 1
    cl = rng.sample(['a', 'b'], rng.randint(1, 2)); hy = rng.sample(['h', 'k'], rng.randint(1, 2))
    names = cl + hy; rng.shuffle(names)
    for a in names: out.append(f"AT {x('D')} {x(a)} {'1' if a in hy else '0'} -")
    out.append('UPD'); nmpk += 1
    out.append(f'EN {nmpk - 1} {x(" || ".join("D::" + a for a in names))}')
    out.append(f'EN {nmpk - 1} {x(" || ".join("D::" + a for a in hy))}')
    for a in hy[:1]: out.append(f'KG {x("D::" + a)}')
    if rng.random() < 0.4: out.append(f'RK {x("D::" + hy[0])}'); nmpk += 1
    gone = cl if rng.random() < 0.7 else hy
    for a in gone: out.append(f"{rng.choice(['DT', 'DS'])} {x('D')} {x(a)}")
    out.append('UPD'); nmpk += 1
    out += [f'RC {nmpk - 1} 0', f'RC {nmpk - 1} 1', 'RF 0 1', 'DE 0 0', 'DE 0 2', 'DE 0 3']
    return out
