"""Golden vectors: objects serialized by the pinned release (8f3c295) must keep deserializing to working objects."""
import os, vf

def check(ctx):
    for cfg in ('default', 'alt'):
        p = f'{vf.ROOT}/corpus/golden/{cfg}.txt'
        if not os.path.exists(p):
            ctx.ob('golden', f'golden vectors [{cfg}] present', False, p + ' missing'); continue
        lines = [l for l in open(p).read().split('\n') if l]
        out, r = vf.run_lines(vf.harness_bin('golden', cfg), lines, args=['check'], timeout=600)
        bad = [o for o in out if not o.startswith('OK')]
        ctx.ob('golden', f'pinned-release objects [{cfg}]: {len(lines)} vectors deserialize, re-serialize to their announced length, decapsulate to the recorded secret, refresh, rekey and encapsulate',
               len(out) == len(lines) and not bad, ' ; '.join(bad[:3]) + r.stderr[-300:])
        ctx.evaluations += len(lines)
        if bad and len(out) == len(lines):
            i = next(k for k, o in enumerate(out) if not o.startswith('OK'))
            vf.violation(ctx, f'object serialized by the pinned release (golden vector #{i}, {cfg} build): {out[i][:200]}', {'config': cfg, 'golden_vector': i, 'file': f'corpus/golden/{cfg}.txt', 'impl': out[i][:400], 'violations_total': len(bad)})
