"""Shared machinery of ./check: builds, proof obligations, drivers, evidence, verdicts.

Everything here is testing / orchestration code (part of the trusted base as listed in DESIGN.md section 9):
the *theorems* live in coq/, this file only (a) re-checks them with coqc, (b) runs the model and the
implementation side by side, (c) evaluates implementation-side oracles, (d) writes evidence and verdicts.
"""
import os, sys, subprocess, json, time, re, fcntl, hashlib, random

ROOT = os.path.dirname(os.path.dirname(os.path.abspath(__file__)))
REPO = os.environ.get('CC_REPO', '/repo')
COQ = ROOT + '/coq'
HARNESS = ROOT + '/harness'
OCAML = ROOT + '/ocaml'
GUARD = 'cosmian_cover_crypt_verif'

# Print Assumptions allow-list (standard-library axioms only; see DESIGN.md section 9)
AXIOM_ALLOW = {
    'functional_extensionality_dep', 'FunctionalExtensionality.functional_extensionality_dep',
    'Eqdep.Eq_rect_eq.eq_rect_eq', 'Eq_rect_eq.eq_rect_eq', 'eq_rect_eq',
    'ProofIrrelevance.proof_irrelevance', 'proof_irrelevance',
    'Classical_Prop.classic', 'classic', 'JMeq.JMeq_eq', 'JMeq_eq',
}
FORBIDDEN = r'Admitted|admit\.|\badmit\b|^\s*Axiom\b|^\s*Parameter\b|^\s*Conjecture\b|Unset Guard|bypass_check|type-in-type|impredicative-set|Admit Obligations|Unset Positivity|Unset Universe'


def sh(cmd, cwd=None, inp=None, timeout=3600, env=None):
    e = dict(os.environ)
    e.update({'CARGO_NET_OFFLINE': 'true'})
    if env: e.update(env)
    return subprocess.run(cmd, cwd=cwd, input=inp, capture_output=True, text=True,
                          shell=isinstance(cmd, str), timeout=timeout, env=e)


class Lock:
    def __init__(self, name): self.path = ROOT + '/.lock-' + name
    def __enter__(self):
        self.f = open(self.path, 'w'); fcntl.flock(self.f, fcntl.LOCK_EX); return self
    def __exit__(self, *a):
        fcntl.flock(self.f, fcntl.LOCK_UN); self.f.close()


class Ctx:
    def __init__(self, prop, tier, seed):
        self.prop, self.tier, self.seed = prop, tier, seed
        self.t0 = time.time()
        self.rng = random.Random(seed * 1000003 + int(prop[1:]))
        self.obligations = []      # {'kind','name','ok','detail'}
        self.violations = []       # {'what','replay'(dict), 'found':bool}
        self.known_hits = []       # strings
        self.cov = {}              # extra coverage keys
        self.trusted = []
        self.assumptions = []
        self.samples = []
        self.evaluations = 0
        self.nontrivial = set()
        self.rule = ''
        self.traces = 0
        self.checker_cmds = []
        self.hist = {}

    def quick(self): return self.tier != 'thorough'
    def ob(self, kind, name, ok, detail=''):
        self.obligations.append({'kind': kind, 'name': name, 'ok': bool(ok), 'detail': detail[:2000]})
        return ok
    def count(self, key, n=1): self.hist[key] = self.hist.get(key, 0) + n
    def elapsed(self): return time.time() - self.t0


# ---------------------------------------------------------------------------------------------- builds

CONFIGS = {
    'default': {'flags': [], 'target': 'target', 'sizes': dict(SK=32, PT=32, EK=800, DK=1632, CT=768)},
    'alt': {'flags': ['--no-default-features', '--features', 'cfg-alt'], 'target': 'target-alt',
            'sizes': dict(SK=32, PT=33, EK=1184, DK=2400, CT=1088)},
}


def harness_bin(name, config='default'):
    return f"{HARNESS}/{CONFIGS[config]['target']}/release/{name}"


def build_harness(ctx, configs=('default',), optional=()):
    """cargo build of the harness crate against the CURRENT working tree of /repo (path dependency).
    A configuration listed in `optional` is one the property does not speak about (an extra campaign of the check): when
    it does not compile while the others do, its campaign is skipped and recorded, no alarm (C01/C02, whose statements
    name both configurations, keep it mandatory and report it)."""
    ok = True
    if not hasattr(ctx, 'unbuilt'): ctx.unbuilt = set()
    # CC_REPO (used by background runs on a snapshot of the repository) re-targets the path dependency
    ct = HARNESS + '/Cargo.toml'; txt = open(ct).read()
    want = re.sub(r'path = "[^"]*"', f'path = "{REPO}"', txt, count=1)
    if want != txt: open(ct, 'w').write(want)
    with Lock('cargo'):
        # the lock file of the harness must agree with the repo's (same dependency versions)
        for cfg in configs:
            c = CONFIGS[cfg]
            cmd = ['cargo', 'build', '--release', '--offline', '--target-dir', c['target']] + c['flags']
            env = {'RUSTFLAGS': f'--cfg {GUARD}', 'CC_REPO': REPO}
            r = sh(cmd, cwd=HARNESS, env=env, timeout=3000)
            good = r.returncode == 0
            if not good and cfg in optional:
                ctx.unbuilt.add(cfg)
                ctx.assumptions.append(f'the {cfg} build (p-256 + ML-KEM-768) does not compile on this tree: its extra campaign was skipped (reported by C01/C02, whose statements cover both configurations)')
                continue
            ctx.ob('build', f'harness builds against {REPO} ({cfg})', good, (r.stderr or '')[-1500:])
            ok = ok and good
    return ok


def build_coq(ctx):
    with Lock('coq'):
        if not os.path.exists(COQ + '/Makefile'):
            sh('coq_makefile -f _CoqProject -o Makefile', cwd=COQ)
        r = sh('timeout 2400 make -j16 2>&1 | tail -30', cwd=COQ, timeout=2500)
        good = 'Error' not in r.stdout and r.returncode == 0
        ctx.ob('build', 'coq development builds (make, full .vo)', good, r.stdout[-1500:])
        r2 = sh('./build.sh 2>&1 | tail -20', cwd=OCAML, timeout=600)
        good2 = r2.returncode == 0 and 'rror' not in r2.stdout
        ctx.ob('build', 'extracted model + OCaml drivers build', good2, r2.stdout[-1500:])
    return good and good2


def forbidden_scan(ctx):
    hits = []
    for dp, dn, fn in os.walk(COQ):
        for f in fn:
            if f.endswith('.v'):
                p = os.path.join(dp, f)
                txt = strip_coq_comments(open(p).read())
                depth = 0
                for i, line in enumerate(txt.split('\n')):
                    if re.search(FORBIDDEN, line):
                        hits.append(f'{os.path.relpath(p, COQ)}:{i+1}: {line.strip()[:100]}')
                    # a Variable / Hypothesis / Context outside a Section declares an axiom
                    if re.match(r'\s*(Section|Module Type)\b', line): depth += 1
                    elif re.match(r'\s*End\s+\w+\s*\.', line) and depth > 0: depth -= 1
                    elif depth == 0 and re.match(r'\s*(Variables?|Hypothes[ie]s|Context)\b', line):
                        hits.append(f'{os.path.relpath(p, COQ)}:{i+1}: outside a Section: {line.strip()[:100]}')
    ctx.ob('hygiene', 'no Admitted/admit/Axiom/Parameter/Conjecture/guard switches anywhere in coq/', not hits, '\n'.join(hits[:20]))
    return not hits


def strip_coq_comments(s):
    out = []; depth = 0; i = 0
    while i < len(s):
        if s.startswith('(*', i): depth += 1; i += 2; continue
        if s.startswith('*)', i) and depth > 0: depth -= 1; i += 2; continue
        if depth == 0: out.append(s[i])
        elif s[i] == '\n': out.append('\n')
        i += 1
    return ''.join(out)


def proof_obligations(ctx, vfile=None):
    """Re-checks Properties/<prop>.v with coqc and inspects Print Assumptions under every theorem."""
    if vfile is None:
        import glob
        extra = sorted(glob.glob(f'{COQ}/Properties/{ctx.prop}_*.v'))
        for e in extra: proof_obligations(ctx, 'Properties/' + os.path.basename(e))
        vfile = f'Properties/{ctx.prop}.v'
    cmd = f'timeout 900 coqc -R . CC {vfile}'
    ctx.checker_cmds.append(f'cd {COQ} && make -j16 && {cmd}')
    with Lock('coq'):
        r = sh(cmd, cwd=COQ, timeout=1000)
    out = r.stdout + r.stderr
    src = strip_coq_comments(open(f'{COQ}/{vfile}').read())
    thms = re.findall(r'^\s*(?:Theorem|Corollary)\s+(\w+)', src, re.M)
    printed = re.findall(r'^\s*Print Assumptions\s+(\w+)\s*\.', src, re.M)
    # split coqc output into one block per Print Assumptions
    blocks = re.split(r'(?=^Closed under the global context|^Axioms:|^Section Variables:)', out, flags=re.M)
    blocks = [b for b in blocks if b.startswith('Closed') or b.startswith('Axioms:') or b.startswith('Section Variables:')]
    allok = r.returncode == 0
    axioms_seen = set()
    for i, t in enumerate(thms):
        ok = allok and t in printed
        detail = ''
        if ok:
            k = printed.index(t)
            if k < len(blocks):
                b = blocks[k]
                if b.startswith('Closed'):
                    detail = 'Closed under the global context'
                else:
                    names = re.findall(r'^([A-Za-z_][\w.\']*)\s*:', b, re.M)
                    bad = [n for n in names if n not in AXIOM_ALLOW and n.split('.')[-1] not in AXIOM_ALLOW]
                    axioms_seen.update(names)
                    detail = 'Axioms: ' + ', '.join(names)
                    if bad or b.startswith('Section Variables:'): ok = False; detail += '  NOT ALLOWED: ' + ', '.join(bad)
            else:
                ok = False; detail = 'no Print Assumptions output'
        elif allok:
            detail = 'theorem without Print Assumptions'
        else:
            detail = out[-800:]
        ctx.ob('theorem', f'{vfile}:{t}', ok, detail)
    if not thms:
        ctx.ob('theorem', f'{vfile}: no theorems found', False)
    ctx.trusted.append('Coq 8.16.1 kernel via coqc (vm_compute used; native_compute not used)')
    ctx.trusted.append('Print Assumptions under every theorem of ' + vfile + ': ' +
                       ('Closed under the global context' if not axioms_seen else 'axioms ' + ', '.join(sorted(axioms_seen))))
    return thms


def coqchk(ctx, module):
    cmd = f'timeout 1800 coqchk -silent -o -R . CC CC.Properties.{module}'
    ctx.checker_cmds.append(f'cd {COQ} && {cmd}')
    r = sh(cmd, cwd=COQ, timeout=2000)
    out = r.stdout + r.stderr
    m = re.search(r'\* Axioms:\s*(.*?)\n\s*\n', out + '\n\n', re.S)
    ax = (m.group(1).strip() if m else '?')
    names = [] if '<none>' in ax else re.findall(r'^\s*([\w.]+)', ax, re.M)
    bad = [n for n in names if n.split('.')[-1] not in AXIOM_ALLOW and n not in AXIOM_ALLOW]
    ctx.ob('coqchk', f'coqchk -o CC.Properties.{module}', r.returncode == 0 and not bad, ax[:500])


# ---------------------------------------------------------------------------------------------- drivers

class _Partial:
    def __init__(s, out): s.stdout = out; s.stderr = 'timeout'; s.returncode = 124


def run_lines(binpath, lines, args=(), timeout=None, env=None):
    # a driver that never comes back (a call that hangs) yields the answers it gave so far; the callers treat missing answers
    # as "stopped after k operations".  Deadline: 5 minutes in the quick tier, an hour otherwise, unless the caller says.
    if timeout is None: timeout = 300 if os.environ.get('VERIF_TIER_EFFECTIVE', 'quick') == 'quick' else 3600
    inp = '\n'.join(lines) + '\n'
    try: r = sh([binpath] + list(args), inp=inp, timeout=timeout, env=env)
    except subprocess.TimeoutExpired as e:
        so = e.stdout.decode(errors='replace') if isinstance(e.stdout, bytes) else (e.stdout or '')
        r = _Partial(so[:so.rfind('\n') + 1])
    out = r.stdout.split('\n')
    if out and out[-1] == '': out.pop()
    return out, r


def run_sharded(binpath, groups, args=(), timeout=None, env=None, nproc=16):
    """groups: list of lists of lines (each group is self-contained, e.g. one history). Runs them over
    nproc processes, returns list of outputs per group (list of lines)."""
    import concurrent.futures
    shards = [[] for _ in range(min(nproc, max(1, len(groups))))]
    for i, g in enumerate(groups): shards[i % len(shards)].append(i)
    def work(idx):
        lines = []
        for gi in idx: lines += groups[gi]
        out, r = run_lines(binpath, lines, args, timeout, env)
        return idx, out, r
    res = [None] * len(groups)
    with concurrent.futures.ThreadPoolExecutor(len(shards)) as ex:
        for idx, out, r in ex.map(work, shards):
            p = 0
            for gi in idx:
                n = len(groups[gi]); res[gi] = out[p:p + n]; p += n
    return res


def hexs(s): return s.encode('utf-8').hex()


# ---------------------------------------------------------------------------------------------- findings

def known_findings():
    p = ROOT + '/known_findings.json'
    return json.load(open(p)) if os.path.exists(p) else []


# ---------------------------------------------------------------------------------------------- verdict

def violation(ctx, what, replay, found=True):
    ctx.violations.append({'what': what, 'replay': replay, 'found': found})


def finish(ctx, level='proof'):
    """Writes replay files, evidence, prints verdict lines and exits."""
    os.makedirs(ROOT + '/replays', exist_ok=True); os.makedirs(ROOT + '/evidence', exist_ok=True)
    broken = [o for o in ctx.obligations if not o['ok']]
    lines = []
    n = 0
    for v in ctx.violations:
        path = f'{ROOT}/replays/{ctx.prop}-{ctx.seed}-{n}.json'; n += 1
        rep = {'property': ctx.prop, 'tier': ctx.tier, 'seed': ctx.seed, 'broken': 'oracle', 'what': v['what'],
               'failing_input_found': True}
        rep.update(v['replay'])
        json.dump(rep, open(path, 'w'), indent=1, ensure_ascii=False)
        lines.append(f'VIOLATION property={ctx.prop} replay={path}')
        if n >= 5: break
    if not ctx.violations and broken:
        path = f'{ROOT}/replays/{ctx.prop}-{ctx.seed}-0.json'
        json.dump({'property': ctx.prop, 'tier': ctx.tier, 'seed': ctx.seed, 'broken': broken[0]['kind'],
                   'obligations_no_longer_checking': broken[:10], 'failing_input_found': False,
                   'note': 'a proof or correspondence obligation no longer checks and the directed search found no input on which the property itself fails'},
                  open(path, 'w'), indent=1, ensure_ascii=False)
        lines.append(f'VIOLATION property={ctx.prop} replay={path} no-failing-input-found')
    for k in ctx.known_hits:
        print(f'KNOWN-FINDING: property={ctx.prop} {k}')
    cov = {'obligations': len(ctx.obligations), 'discharged': sum(1 for o in ctx.obligations if o['ok']),
           'checker_cmd': ' ; '.join(ctx.checker_cmds) or 'n/a', 'trusted_base': ctx.trusted,
           'evaluations': ctx.evaluations, 'distinct_nontrivial': len(ctx.nontrivial) if isinstance(ctx.nontrivial, set) else ctx.nontrivial,
           'rule': ctx.rule, 'samples': ctx.samples[:6] or ['(none)'], 'traces_validated_against_impl': ctx.traces,
           'histogram': ctx.hist, 'obligation_list': [{k: o[k] for k in ('kind', 'name', 'ok')} | ({'detail': o['detail']} if not o['ok'] or o['kind'] == 'theorem' else {}) for o in ctx.obligations],
           'known_findings_hit': ctx.known_hits, 'repo': REPO}
    cov.update(ctx.cov)
    ev = {'property_id': ctx.prop, 'tier': 'thorough' if ctx.tier == 'thorough' else 'quick', 'seed': ctx.seed, 'level': level,
          'coverage': cov, 'assumptions': ctx.assumptions, 'wall_s': round(ctx.elapsed(), 2),
          'violations': len(ctx.violations) + (1 if (broken and not ctx.violations) else 0)}
    json.dump(ev, open(f'{ROOT}/evidence/{ctx.prop}.json', 'w'), indent=1, ensure_ascii=False)
    for l in lines: print(l)
    if lines:
        for o in broken[:8]: print(f"  broken obligation [{o['kind']}] {o['name']}: {o['detail'][:300]}", file=sys.stderr)
        sys.exit(1)
    print(f"OK property={ctx.prop} tier={ctx.tier} obligations={cov['discharged']}/{cov['obligations']} evaluations={ctx.evaluations} wall={ev['wall_s']}s")
    sys.exit(0)


def ddmin(items, pred):
    """delta debugging: smallest sub-list (kept in order) for which pred holds"""
    items = list(items); n = 2
    while len(items) >= 2:
        chunk = max(1, len(items) // n); reduced = False
        for i in range(0, len(items), chunk):
            cand = items[:i] + items[i + chunk:]
            if cand and pred(cand): items = cand; n = max(n - 1, 2); reduced = True; break
        if not reduced:
            if chunk == 1: break
            n = min(n * 2, len(items))
    return items
