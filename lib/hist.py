"""History engine: generation of operation scripts, execution on both drivers, comparison of the canonical
dumps up to a bijection on tokens, and generic implementation-side oracles."""
import re, random, collections
import vf

DIMS = ['S', 'D', 'C']
ATTR = ['a', 'b', 'c', 'd']


def x(s): return 'x' + s.encode().hex()
def unx(t): return bytes.fromhex(t[1:]).decode()


class Sim:
    """Light book-keeping of what names exist, only to generate mostly-valid operations (not an oracle)."""
    def __init__(self):
        self.dims = {}; self.kinds = {}; self.nmpk = 1; self.nusk = 0; self.nenc = 0


AST_SHARE = [0.0]     # probability that a generated policy is BUILT (prefix notation '@...') instead of written as a string


def gen_ast_policy(rng, sim, maxdepth=2, p_bad=0.04):
    """a policy assembled with the constructors: Broadcast may stand anywhere (below a conjunction, beside other clauses)"""
    live = [(d, a) for d in sim.dims for a in sim.dims[d]]
    def atom():
        if not live or rng.random() < p_bad: d, a = rng.choice(DIMS), rng.choice(ATTR)
        else: d, a = rng.choice(live)
        return f'T,{d.encode().hex()},{a.encode().hex()}'
    def gen(dep):
        r = rng.random()
        if rng.random() < 0.15: return 'B'
        if dep <= 0 or r < 0.35: return atom()
        # 'A' / 'O': the enum constructors; 'a' / 'o': the `&` / `|` operators (which simplify around Broadcast)
        k = ('A,' if r < 0.65 else 'O,'); k = k.lower() if rng.random() < 0.4 else k
        return k + gen(dep - 1) + ',' + gen(dep - 1)
    return '@' + gen(rng.randint(1, maxdepth + 1))


def has_built_policy(script):
    return any(t.startswith('x40') for l in script for t in l.split(' ')[1:])


def gen_policy(rng, sim, maxdepth=2, p_star=0.08, p_bad=0.04):
    if AST_SHARE[0] and rng.random() < AST_SHARE[0]: return gen_ast_policy(rng, sim, maxdepth, p_bad)
    live = [(d, a) for d in sim.dims for a in sim.dims[d]]
    def atom():
        if not live or rng.random() < p_bad: return rng.choice(DIMS) + '::' + rng.choice(ATTR)
        d, a = rng.choice(live); return d + '::' + a
    def gen(dep):
        r = rng.random()
        # the broadcast policy as an operand (neutral for &&, absorbing for ||); bare it is only accepted as the last
        # element, in parentheses it can stand anywhere (e.g. as the LEFT operand of ||)
        if rng.random() < 0.05: return rng.choice(['*', '(*)', '( * )'])
        if dep <= 0 or r < 0.45: return atom()
        # an operand of && that is itself a disjunction is mostly written in parentheses (a real conjunction OF
        # disjunctions, whose normal form is a product of clause lists of different lengths); disjunctions have 2-4 operands
        def par(t): return '(' + t + ')' if '||' in t and rng.random() < 0.75 else t
        if r < 0.72: return par(gen(dep - 1)) + ' && ' + par(gen(dep - 1))
        if r < 0.95: return ' || '.join(gen(dep - 1) for _ in range(rng.choice([2, 2, 2, 3, 3, 4])))
        return '(' + gen(dep - 1) + ')'
    if rng.random() < p_star: return '*'
    return gen(rng.randint(0, maxdepth))


DEFAULT_W = dict(add_dim=4, del_dim=2, add_attr=8, del_attr=5, rename=3, disable=4, upd=10, mpk=2, rekey=8, prune=4,
                 keygen=10, refresh=10, encaps=12, recaps=3, decaps=15, rt=4, snap=1, restore=1, rfbad=2, ap=3, hint=0)


def gen_history(rng, w=None, nsteps=(8, 45), final_pairs=True, names_extra=('e', 'f'), multibyte=False, exotic=False):
    W = dict(DEFAULT_W); W.update(w or {})
    out = ['SETUP']; sim = Sim()
    attr_pool = ATTR + (['é', '名', 'aż'] if multibyte else []) + (['a b', '', ' x', 'a*', 'é', 'L' * 130, 'é' * 150] if exotic else [])     # 130 and 300 bytes: two-byte length prefixes
    # minimal states now and then: no dimension at all (only the broadcast right exists), a dimension without attribute
    for d in rng.sample(DIMS, rng.randint(1, 3) if rng.random() > 0.04 else 0):
        k = rng.choice(['AA', 'AH']); out.append(f'{k} {x(d)}'); sim.dims[d] = []; sim.kinds[d] = k
        for a in rng.sample(attr_pool, rng.randint(1, 3) if rng.random() > 0.06 else 0):
            aft = '-'
            if k == 'AH' and sim.dims[d] and rng.random() < 0.6: aft = x(rng.choice(sim.dims[d]))
            out.append(f"AT {x(d)} {x(a)} {rng.choice('001')} {aft}"); sim.dims[d].append(a)
    out.append('UPD'); sim.nmpk += 1
    keys = list(W); weights = [W[k] for k in keys]
    for _ in range(rng.randint(*nsteps)):
        # the same operation twice in a row (idempotence of update / refresh / prune / disable / round trips, a second rekey,
        # a repeated failing call): now and then the last line is simply repeated
        if len(out) > 2 and rng.random() < 0.05 and out[-1].split(' ')[0] not in ('SETUP', 'AA', 'AH', 'AT', 'KG', 'EN', 'RC'):
            out.append(out[-1])
            if out[-1].split(' ')[0] in ('UPD', 'MPK', 'RK', 'PR'): sim.nmpk += 1
            continue
        op = rng.choices(keys, weights)[0]
        dims = sim.dims
        if op == 'add_dim':
            d = rng.choice(DIMS); k = rng.choice(['AA', 'AH']); out.append(f'{k} {x(d)}')
            if d not in dims: dims[d] = []; sim.kinds[d] = k
        elif op == 'del_dim':
            d = rng.choice(DIMS); out.append(f'DD {x(d)}'); dims.pop(d, None)
        elif op == 'add_attr' and dims:
            d = rng.choice(list(dims)); a = rng.choice(attr_pool + list(names_extra)); aft = '-'
            if dims[d] and rng.random() < 0.5: aft = x(rng.choice(dims[d]))
            if rng.random() < 0.05: aft = x('zz')
            elif rng.random() < 0.04: aft = x('')       # Some(""): an unknown attribute unless one is literally named ""
            out.append(f"AT {x(d)} {x(a)} {rng.choice('001')} {aft}")
            if a not in dims[d] and not (sim.kinds[d] == 'AH' and (aft == x('zz') or (aft == x('') and '' not in dims[d]))): dims[d].append(a)
        elif op == 'del_attr' and dims:
            d = rng.choice(list(dims))
            if dims[d]:
                a = rng.choice(dims[d]) if rng.random() < 0.9 else 'zz'; out.append(f'DT {x(d)} {x(a)}')
                if a in dims[d]: dims[d].remove(a)
        elif op == 'rename' and dims:
            d = rng.choice(list(dims))
            if dims[d]:
                a = rng.choice(dims[d]); n = rng.choice(['g', 'h'] + ATTR); out.append(f'RN {x(d)} {x(a)} {x(n)}')
                if n not in dims[d]: dims[d][dims[d].index(a)] = n
        elif op == 'disable' and dims:
            d = rng.choice(list(dims))
            if dims[d]: out.append(f'DS {x(d)} {x(rng.choice(dims[d]))}')
        elif op == 'upd': out.append('UPD'); sim.nmpk += 1
        elif op == 'mpk': out.append('MPK'); sim.nmpk += 1
        elif op == 'rekey': out.append(f'RK {x(gen_policy(rng, sim, 1))}'); sim.nmpk += 1
        elif op == 'prune': out.append(f'PR {x(gen_policy(rng, sim, 1))}'); sim.nmpk += 1
        elif op == 'keygen': out.append(f'KG {x(gen_policy(rng, sim))}'); sim.nusk += 1
        elif op == 'refresh' and sim.nusk: out.append(f"RF {rng.randrange(sim.nusk)} {rng.choice('01')}")
        elif op == 'encaps':
            j = rng.randrange(sim.nmpk) if rng.random() < 0.4 else sim.nmpk - 1
            out.append(f'EN {j} {x(gen_policy(rng, sim, 1))}'); sim.nenc += 1
        elif op == 'recaps' and sim.nenc:
            j = rng.randrange(sim.nmpk) if rng.random() < 0.3 else sim.nmpk - 1
            out.append(f'RC {j} {rng.randrange(sim.nenc)}'); sim.nenc += 1
        elif op == 'decaps' and sim.nusk and sim.nenc: out.append(f'DE {rng.randrange(sim.nusk)} {rng.randrange(sim.nenc)}')
        elif op == 'ap': out.append(f'AP {x(gen_policy(rng, sim, 3, p_bad=0.1))}')
        elif op == 'rfbad' and sim.nusk:
            if rng.random() < 0.25: out.append(f"RFX {rng.randrange(sim.nusk)} {rng.choice('01')}")
            else: out.append(f"RFBAD {rng.randrange(sim.nusk)} {rng.choice('01')} {rng.choice('012345')}")
        elif op == 'hint' and dims:
            d = rng.choice(list(dims))
            if dims[d]: out.append(f"HINT {x(d)} {x(rng.choice(dims[d]))} {rng.choice('001')}")
        elif op == 'snap': out.append('SNAP'); sim.nsnap = getattr(sim, 'nsnap', 0) + 1
        elif op == 'restore' and getattr(sim, 'nsnap', 0): out.append(f'REST {rng.randrange(sim.nsnap)}')
        elif op == 'rt':
            k = rng.choice(['MSK', 'MPK', 'USK', 'ENC'])
            if k == 'MSK': out.append('RT MSK')
            else:
                n = {'MPK': sim.nmpk, 'USK': sim.nusk, 'ENC': sim.nenc}[k]
                if n: out.append(f'RT {k} {rng.randrange(n)}')
    if final_pairs:
        for k in range(min(sim.nusk, 5)):
            for e in range(min(sim.nenc, 8)): out.append(f'DE {k} {e}')
    return out


def pretty(script):
    """human-readable rendering of a script (hex arguments decoded)"""
    out = []
    for l in script:
        out.append(' '.join(unx(t) if t.startswith('x') and len(t) > 1 and all(c in '0123456789abcdef' for c in t[1:]) and len(t) % 2 == 1 else t for t in l.split(' ')))
    return out


# ------------------------------------------------------------------------------------------- running

def run_both(histories, config='default', model_mode='fixed'):
    impl = vf.run_sharded(vf.harness_bin('kdriver', config), histories)
    # histories with BUILT policies have no counterpart in the model (its operations take policy strings): reference semantics only
    plain = [h for h in histories if not has_built_policy(h)]
    mres = vf.run_sharded(vf.OCAML + '/kdriver', plain, args=[model_mode]) if plain else []
    it = iter(mres)
    model = [None if has_built_policy(h) else next(it) for h in histories]
    return impl, model


# ------------------------------------------------------------------------------------------- comparison

TOK_I = re.compile(r'\b([spigk])([0-9a-f]{16})\b')
TOK_M = re.compile(r'\b([tigk])(\d+)\b')


class Bij:
    def __init__(self): self.i2m = {}; self.m2i = {}
    def bind(self, ns, ti, tm):
        ki, km = (ns, ti), (ns, tm)
        if self.i2m.get(ki, km) != km or self.m2i.get(km, ki) != ki: return False
        self.i2m[ki] = km; self.m2i[km] = ki; return True


def split_dump(d):
    """'MSK l=1 ... K=items' -> (head fields, items)"""
    if ' K=' in d:
        h, k = d.split(' K=', 1); return h.split(' '), k.split(' ') if k else []
    return d.split(' '), []


def cmp_positional(a, b, bij):
    ta = TOK_I.findall(a); tb = TOK_M.findall(b)
    sa = TOK_I.sub('#', a); sb = TOK_M.sub('#', b)
    if sa != sb or len(ta) != len(tb): return False
    for (ns, hi), (nm, tm) in zip(ta, tb):
        if ns in 'igk' and nm != ns: return False
        if ns in 'sp' and nm != 't': return False
        if not bij.bind(ns, hi, tm): return False
    return True


def cmp_line(a, b, bij):
    """a = impl line, b = model line; returns None if they agree, else a description"""
    pa, pb = a.split('|'), b.split('|')
    if len(pa) != len(pb) or pa[0] != pb[0]: return 'observation differs'
    deferred = []
    order = list(range(len(pa) - 1, 0, -1))      # other dumps first, the MSK (index 1) last
    for i in order:
        ha, ka = split_dump(pa[i]); hb, kb = split_dump(pb[i])
        if len(ha) != len(hb) or len(ka) != len(kb): return f'dump {i}: shape differs'
        for fa, fb in zip(ha, hb):
            if fa.startswith('u=') and fb.startswith('u='):
                deferred.append((fa[2:], fb[2:])); continue
            if not cmp_positional(fa, fb, bij): return f'dump {i}: field {fa[:60]} vs {fb[:60]}'
        for fa, fb in zip(ka, kb):
            if not cmp_positional(fa, fb, bij): return f'dump {i}: item {fa[:80]} vs {fb[:80]}'
    for ua, ub in deferred:
        sa = [t for t in ua.split(',') if t]; sb = [t for t in ub.split(',') if t]
        if len(sa) != len(sb): return f'user-id set size {len(sa)} vs {len(sb)}'
        ma = set(); unk_a = []
        for t in sa:
            k = ('i', t[1:])
            if k in bij.i2m: ma.add(bij.i2m[k][1])
            else: unk_a.append(t[1:])
        mb = {t[1:] for t in sb}; unk_b = sorted(mb - ma)
        if not ma <= mb: return 'user-id set differs'
        if len(unk_a) != len(unk_b): return 'user-id set differs'
        if len(unk_a) == 1:
            if not bij.bind('i', unk_a[0], unk_b[0]): return 'user-id binding conflict'
        elif len(unk_a) > 1: return 'ambiguous user ids'
    return None


def compare(histories, impl, model):
    """returns list of disagreements: (history index, line index, op, impl line, model line, why)"""
    dis = []
    for h, script in enumerate(histories):
        bij = Bij(); ia, mb = impl[h], model[h]
        if mb is None and has_built_policy(script): continue
        if ia is None or mb is None or len(ia) != len(script) or len(mb) != len(script):
            dis.append((h, min(len(ia or []), len(mb or [])), 'driver stopped', '', '', f'impl answered {len(ia or [])} model {len(mb or [])} of {len(script)} lines')); continue
        for ln, op in enumerate(script):
            why = cmp_line(ia[ln], mb[ln], bij)
            if why: dis.append((h, ln, op, ia[ln], mb[ln], why)); break
    return dis


# ------------------------------------------------------------------------------------------- generic oracles (impl trace only)

def strip_len(d): return d


def generic_oracles(script, out):
    """violations visible on the implementation's trace alone, independent of any model:
       returns list of (line, property, what)"""
    v = []
    last_msk = None; last_usk = {}
    nusk = 0
    for ln, (op, o) in enumerate(zip(script, out)):
        parts = o.split('|'); ob = parts[0]; f = op.split(' ')
        if ob == 'PANIC': v.append((ln, 'C15', 'policy parser panicked'))
        if ob in ('WRONG', 'DERR') : v.append((ln, 'C02', f'decapsulation returned {ob} (a secret different from the encapsulated one / an error)'))
        if ob == 'RTFAIL': v.append((ln, 'C13', 'round trip failed: length() != serialize().len() or deserialize(serialize(x)) != x'))
        for d in parts[1:]:
            if ' l=0' in d: v.append((ln, 'C13', 'length() != serialize().len() for ' + d[:3]))
        msk = parts[1] if len(parts) > 1 else None
        if ob == 'ERR' and last_msk is not None and msk != last_msk:
            v.append((ln, 'C10', 'master key changed by a failed call'))
        if ob == 'ERRMOD': v.append((ln, 'C10', 'user key changed (its serialized bytes differ) by a refused refresh'))
        if f[0] in ('RF', 'RFBAD', 'RFX') and ob == 'ERR' and len(parts) > 2 and nusk:
            k = int(f[1]) % nusk
            if k in last_usk and last_usk[k] != parts[2]: v.append((ln, 'C10', 'user key changed by a failed refresh'))
        if f[0] == 'KG' and ob == 'OK': last_usk[nusk] = parts[2]; nusk += 1
        if f[0] == 'RF' and ob == 'OK' and nusk: last_usk[int(f[1]) % nusk] = parts[2]
        if f[0] == 'SETUP': last_usk = {}; nusk = 0
        if ob in ('DE',): pass
        # read-only operations must not change the master key at all
        if f[0] in ('DE', 'EN', 'RC', 'MPK', 'RT', 'SNAP') and last_msk is not None and msk is not None and msk != last_msk and f[0] != 'RT':
            v.append((ln, 'C10', f'{f[0]} changed the master key'))
        last_msk = msk
    return v
