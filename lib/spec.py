"""Name-level reference semantics of the scheme, written from the property texts and the documentation
(NOT from the Coq model): attributes are entities (a fresh entity per successful add), rights are sets of
entities, secrets are version numbers.  It predicts, for a script, the outcome class of every operation
(OK / ERR / SOME / NONE / NOIDX / DEAD).  The checks use it as the implementation-side oracle: a deviation
of the real crate from this prediction is a violation of the property whose history profile was run.
"""
import itertools, copy


class Ent:
    __slots__ = ('eid', 'hyb', 'enabled')
    def __init__(self, eid, hyb): self.eid, self.hyb, self.enabled = eid, hyb, True


def parse_policy(s):
    """returns DNF: list of clauses, each a list of (dim, name); None on syntax error.
    Grammar: expr := and ('||' expr)? ; and := atom ('&&' atom)* ; atom := '(' expr ')' | '*' | dim '::' name"""
    if s.startswith('@'):
        # a policy BUILT with the constructors (prefix notation): its DNF is the plain distribution, without the
        # simplifications the parser and the operators apply (Broadcast = the empty clause, kept where it stands)
        t = s[1:].split(','); pos = [0]
        def go():            # -> (clauses, "the tree IS the node Broadcast")
            if pos[0] >= len(t): return None
            k = t[pos[0]]; pos[0] += 1
            if k == 'B': return [[]], True
            if k == 'T':
                if pos[0] + 1 >= len(t): return None
                try: d, n = bytes.fromhex(t[pos[0]]).decode(), bytes.fromhex(t[pos[0] + 1]).decode()
                except Exception: return None
                pos[0] += 2; return [[(d, n)]], False
            if k in ('A', 'O', 'a', 'o'):
                l = go(); r = go()
                if l is None or r is None: return None
                (l, lb), (r, rb) = l, r
                # 'a' / 'o' are the operators `&` / `|`: an operand that IS Broadcast is dropped from a conjunction and
                # absorbs a disjunction (tested on the tree, not on its meaning)
                if k == 'a' and lb: return r, rb
                if k == 'a' and rb: return l, lb
                if k == 'o' and (lb or rb): return [[]], True
                return ([a + b for a in l for b in r] if k in 'Aa' else l + r), False
            return None
        r = go()
        return r[0] if r is not None and pos[0] == len(t) else None
    toks = []; i = 0; s = s
    while i < len(s):
        c = s[i]
        if c.isspace(): i += 1; continue
        if c in '()': toks.append(c); i += 1; continue
        if s.startswith('&&', i): toks.append('&&'); i += 2; continue
        if s.startswith('||', i): toks.append('||'); i += 2; continue
        if c in '&|': return None
        j = i
        while j < len(s) and s[j] not in '()&|': j += 1
        toks.append(('A', s[i:j])); i = j
    pos = [0]
    def peek(): return toks[pos[0]] if pos[0] < len(toks) else None
    def atom():
        t = peek()
        if t is None: return None
        if t == '(':
            pos[0] += 1; r = expr()
            if r is None or peek() != ')': return None
            pos[0] += 1; return r
        if isinstance(t, tuple):
            pos[0] += 1
            # the parser trims the remaining expression before each token (leading spaces go) and trims a whole
            # (sub)expression before parsing it (trailing spaces go only at the end of the string or before ')');
            # emptiness of dimension / name is tested BEFORE they are trimmed
            nxt = peek()
            raw = t[1].lstrip()
            if nxt is None or nxt == ')': raw = raw.rstrip()
            if raw == '*':
                # the parser knows the broadcast policy only as the LAST element of a (sub)expression
                return [[]] if (nxt is None or nxt == ')') else None
            if raw.count('::') != 1: return None
            d, n = raw.split('::')
            if d == '' or n == '': return None
            return [[(d.strip(), n.strip())]]
        return None
    def conj():
        r = atom()
        if r is None: return None
        while True:
            t = peek()
            if t == '&&': pos[0] += 1
            elif t == '(' or isinstance(t, tuple): pass       # juxtaposition is accepted by the parser as conjunction
            else: break
            r2 = atom()
            if r2 is None: return None
            r = [a + b for a in r for b in r2]
        return r
    def expr():
        r = conj()
        if r is None: return None
        if peek() == '||':
            pos[0] += 1; r2 = expr()
            if r2 is None: return None
            # `x || *` IS the broadcast policy: the other operand's names are dropped (never looked up afterwards)
            r = [[]] if ([] in r or [] in r2) else r + r2
        return r
    r = expr()
    if r is None or pos[0] != len(toks): return None
    return r


class Spec:
    def __init__(self):
        self.reset()

    def reset(self):
        self.dims = {}            # name -> [kind, [(name, Ent)...]]  ordered lowest first for hierarchies
        self.next_eid = 0
        self.vctr = 0
        self.msk = {}             # frozenset(eids) -> [[activated, hyb, vid], ...] newest first
        self.mpks = []            # (published {combo: (hyb, vid)}, dims snapshot)
        self.usks = []            # {combo: [(hyb, vid)...]}
        self.encs = []            # (hyb, [vid...])
        self.known = set()        # user ids the master key has recorded (index of the key)
        self.snaps = []           # backups of the master key: (dims, next_eid, msk, known)
        self.update(); self.push_mpk()

    # ---------------------------------------------------------------- structure
    def snapshot(self):
        return {d: [k, [(n, e) for n, e in l]] for d, (k, l) in self.dims.items()}

    def omega(self):
        out = {}
        dl = [l for _, (k, l) in self.dims.items()]
        for sel in itertools.product(*[[None] + [e for _, e in l] for l in dl]):
            es = [e for e in sel if e is not None]
            out[frozenset(e.eid for e in es)] = (any(e.hyb for e in es), all(e.enabled for e in es))
        return out

    def edit(self, f):
        op = f[0]
        if op in ('AA', 'AH'):
            if f[1] in self.dims: return 'ERR'
            self.dims[f[1]] = [op, []]; return 'OK'
        if op == 'DD':
            if f[1] not in self.dims: return 'ERR'
            del self.dims[f[1]]; return 'OK'
        d = self.dims.get(f[1])
        if d is None: return 'ERR'
        kind, l = d; names = [n for n, _ in l]
        if op == 'AT':
            n, hyb, after = f[2], f[3], f[4]
            if n in names: return 'ERR'
            if kind == 'AH':
                if after is not None and after not in names: return 'ERR'
                pos = 0 if after is None else names.index(after) + 1
                if after is None and '' in names: pos = names.index('') + 1     # `after` defaults to the empty name
            else: pos = len(l)
            l.insert(pos, (n, Ent(self.next_eid, hyb))); self.next_eid += 1; return 'OK'
        if op == 'DT':
            if f[2] not in names: return 'ERR'
            del l[names.index(f[2])]; return 'OK'
        if op == 'DS':
            if f[2] not in names: return 'ERR'
            l[names.index(f[2])][1].enabled = False; return 'OK'
        if op == 'RN':
            if f[2] not in names or f[3] in names: return 'ERR'
            i = names.index(f[2]); e = l[i][1]
            if kind == 'AA': del l[i]; l.append((f[3], e))
            else: l[i] = (f[3], e)
            return 'OK'
        raise ValueError(op)

    # ---------------------------------------------------------------- policies -> rights
    def usk_rights(self, dims, pol):
        dnf = parse_policy(pol)
        if dnf is None: return None
        out = set()
        for clause in dnf:
            sem = {}
            for (d, n) in clause:
                if d not in dims: return None
                kind, l = dims[d]; names = [x for x, _ in l]
                if n not in names: return None
                i = names.index(n)
                sem[d] = [e for _, e in l[:i + 1]] if kind == 'AH' else [l[i][1]]
            choices = []
            for d, (kind, l) in dims.items():
                choices.append([None] + (sem[d] if d in sem else [e for _, e in l]))
            for sel in itertools.product(*choices):
                out.add(frozenset(e.eid for e in sel if e is not None))
        return out

    def enc_rights(self, dims, pol):
        dnf = parse_policy(pol)
        if dnf is None: return None
        out = set()
        for clause in dnf:
            ids = []
            for (d, n) in clause:
                if d not in dims: return None
                names = [x for x, _ in dims[d][1]]
                if n not in names: return None
                ids.append(dims[d][1][names.index(n)][1].eid)
            out.add(tuple(sorted(ids)))          # a clause naming two attributes of one dimension is a right nobody holds
        return out

    # ---------------------------------------------------------------- key management
    def update(self):
        om = self.omega()
        for r, (hyb, en) in om.items():
            if r not in self.msk and not en: return 'ERR'
        self.msk = {r: ch for r, ch in self.msk.items() if r in om}
        for r, (hyb, en) in om.items():
            if r in self.msk:
                self.msk[r][0][0] = en
                if not hyb: self.msk[r][0][1] = False
            else:
                self.msk[r] = [[True, hyb, self.vctr]]; self.vctr += 1
        return 'OK'

    def push_mpk(self):
        self.mpks.append(({r: (ch[0][1], ch[0][2]) for r, ch in self.msk.items() if ch[0][0]}, self.snapshot()))

    def step(self, line):
        f = line.split(' ')
        def arg(t): return bytes.fromhex(t[1:]).decode()
        op = f[0]
        if op == 'SETUP': self.reset(); return 'OK'
        if op in ('AA', 'AH', 'DD'): return self.edit([op, arg(f[1])])
        if op == 'AT': return self.edit([op, arg(f[1]), arg(f[2]), f[3] == '1', None if f[4] == '-' else arg(f[4])])
        if op in ('DT', 'DS'): return self.edit([op, arg(f[1]), arg(f[2])])
        if op == 'RN': return self.edit([op, arg(f[1]), arg(f[2]), arg(f[3])])
        if op == 'UPD':
            r = self.update()
            if r == 'OK': self.push_mpk()
            return r
        if op == 'MPK': self.push_mpk(); return 'OK'
        if op == 'RK':
            rs = self.usk_rights(self.dims, arg(f[1]))
            if rs is None or any(r not in self.msk for r in rs): return 'ERR'
            for r in rs:
                fl, hyb, _ = self.msk[r][0]
                self.msk[r].insert(0, [fl, hyb, self.vctr]); self.vctr += 1
            self.push_mpk(); return 'OK'
        if op == 'PR':
            rs = self.usk_rights(self.dims, arg(f[1]))
            if rs is None: return 'ERR'
            for r in rs:
                if r in self.msk: self.msk[r] = self.msk[r][:1]
            self.push_mpk(); return 'OK'
        if op == 'KG':
            rs = self.usk_rights(self.dims, arg(f[1]))
            if rs is None or any(r not in self.msk for r in rs): return 'ERR'
            self.known.add(len(self.usks))
            self.usks.append({r: [(self.msk[r][0][1], self.msk[r][0][2])] for r in rs}); return 'OK'
        if op == 'RF':
            if not self.usks: return 'NOIDX'
            k = int(f[1]) % len(self.usks); keep = f[2] == '1'; u = self.usks[k]; new = {}
            if k not in self.known: return 'ERR'      # the (restored) master key does not know this identifier
            for r, uch in u.items():
                if r not in self.msk: continue
                mch = [(h, v) for _, h, v in self.msk[r]]
                if not keep: new[r] = [mch[0]]; continue
                first = uch[0]
                if first in mch:
                    i = mch.index(first); ch = mch[:i + 1]; rest = mch[i + 1:]
                    for s, m in zip(uch[1:], rest):
                        if s == m: ch.append(m)
                        else: break
                    new[r] = ch
                else:
                    new[r] = mch                  # the key's newest secret is gone: it only gets what the master key holds
            self.usks[k] = new; return 'OK'
        if op == 'EN':
            j = int(f[1]) % len(self.mpks); pub, dims = self.mpks[j]
            rs = self.enc_rights(dims, arg(f[2]))
            if rs is None: return 'ERR'
            tg = []
            for r in rs:
                fr = frozenset(r)
                if len(fr) != len(r) or fr not in pub: return 'ERR'
                tg.append(pub[fr])
            self.encs.append((all(h for h, _ in tg), [v for _, v in tg])); self.last_mode = all(h for h, _ in tg); return 'OK'
        if op == 'DE':
            if not self.usks or not self.encs: return 'NOIDX'
            u = self.usks[int(f[1]) % len(self.usks)]; hyb, vs = self.encs[int(f[2]) % len(self.encs)][:2]
            if not u: return 'DEAD'
            forced = self.encs[int(f[2]) % len(self.encs)][2] if len(self.encs[int(f[2]) % len(self.encs)]) > 2 else None
            if forced is not None:
                # an encapsulation that should not exist: a key is certainly NOT entitled to it when every clause names an
                # attribute that occurs in none of the key's rights; otherwise nothing is claimed
                held = set().union(*[set(r) for r in u]) if u else set()
                return 'NONE' if all(not set(cl) <= held for cl in forced) else 'ANY'
            for ch in u.values():
                for (h, v) in ch:
                    if v in vs and (h or not hyb): return 'SOME'
            return 'NONE'
        if op == 'RC':
            if not self.encs: return 'NOIDX'
            j = int(f[1]) % len(self.mpks); pub, _ = self.mpks[j]; hyb, vs = self.encs[int(f[2]) % len(self.encs)][:2]
            rs = [r for r, ch in self.msk.items() if any(fl and v in vs and (h or not hyb) for fl, h, v in ch)]
            rs = [r for r in rs if r in pub]
            if not rs: return 'ERR'
            tg = [pub[r] for r in rs]
            self.encs.append((all(h for h, _ in tg), [v for _, v in tg])); self.last_mode = all(h for h, _ in tg); return 'OK'
        if op == 'AP':
            # the two policy -> rights maps, as sets of right byte strings (LEB128 of the sorted identifiers; entity numbers
            # coincide with attribute identifiers because both are handed out by a monotone counter starting at 0)
            def leb(v):
                o = bytearray()
                while True:
                    b = v & 0x7f; v >>= 7
                    if v: o.append(b | 0x80)
                    else: o.append(b); return bytes(o)
            def show(rs):
                if rs is None: return 'err'
                return 'ok:' + ','.join(sorted('r' + b''.join(leb(i) for i in sorted(r)).hex() for r in rs))
            return f'AP usk={show(self.usk_rights(self.dims, arg(f[1])))} enc={show(self.enc_rights(self.dims, arg(f[1])))}'
        if op == 'HINT':
            d = self.dims.get(arg(f[1]))
            if d is None: return 'ERR'
            for nme, e in d[1]:
                if nme == arg(f[2]): e.hyb = f[3] == '1'; return 'OK'
            return 'ERR'
        if op in ('RFBAD', 'RFX'): return 'ERR' if self.usks else 'NOIDX'
        if op == 'SNAP':
            self.snaps.append(copy.deepcopy((self.dims, self.next_eid, self.msk, self.known))); return 'OK'
        if op == 'REST':
            if not self.snaps: return 'NOIDX'
            self.dims, self.next_eid, self.msk, self.known = copy.deepcopy(self.snaps[int(f[1]) % len(self.snaps)]); return 'OK'
        if op == 'RT':
            if f[1] == 'MSK': return 'OK'
            n = {'MPK': len(self.mpks), 'USK': len(self.usks), 'ENC': len(self.encs)}[f[1]]
            return 'OK' if n else 'NOIDX'
        raise ValueError(line)


def predict(script):
    s = Spec(); out = []
    for l in script: out.append(s.step(l))
    return out


def predict_modes(script):
    """for every successful EN / RC line: True = the encapsulation must be hybridized (every right it targets is), False = classic; None elsewhere"""
    s = Spec(); out = []
    for l in script:
        s.last_mode = None
        r = s.step(l)
        out.append(s.last_mode if (r == 'OK' and l.split(' ')[0] in ('EN', 'RC')) else None)
    return out


def predict_rekeyed(script):
    """for every `RK p` line the reference semantics accepts: the names (as in the dumps: 'r' + LEB128 of the sorted
    identifiers, hex) of the rights that rekey must give a NEW public value; None elsewhere"""
    def leb(v):
        o = bytearray()
        while True:
            b = v & 0x7f; v >>= 7
            if v: o.append(b | 0x80)
            else: o.append(b); return bytes(o)
    s = Spec(); out = []
    for l in script:
        f = l.split(' '); rs = None
        if f[0] == 'RK':
            try: rs = s.usk_rights(s.dims, bytes.fromhex(f[1][1:]).decode())
            except Exception: rs = None
            if rs is not None and any(r not in s.msk for r in rs): rs = None
        r = s.step(l)
        out.append({'r' + b''.join(leb(i) for i in sorted(x)).hex() for x in rs} if (rs is not None and r == 'OK') else None)
    return out


def predict_adaptive(script, got):
    """predict(), except that an encapsulation the implementation ACCEPTED although the reference semantics refuses its
    policy (expected ERR, got OK) is entered as a 'forced' encapsulation, so that the indices stay aligned and what the
    keys get out of it can still be judged ('NONE' for keys that hold no right over one of its attributes, 'ANY' = no
    claim otherwise).  On a tree where the two agree this is predict()."""
    s = Spec(); out = []
    for l, g in zip(script, got):
        f = l.split(' ')
        pre = None
        if f[0] == 'EN' and g == 'OK' and s.mpks:
            try:
                pub, dims = s.mpks[int(f[1]) % len(s.mpks)]
                pre = s.enc_rights(dims, bytes.fromhex(f[2][1:]).decode())
            except Exception: pre = None
        r = s.step(l)
        if f[0] == 'EN' and g == 'OK' and r == 'ERR' and pre: s.encs.append((False, [], [tuple(c) for c in pre]))
        out.append(r)
    return out
